"""C18 - random-walk and spectral measures satisfy their defining equations.

mc:       spec/RandomWalkImpl.tla (MC_RandomWalk*.cfg)
          * walk: the loop of findwalks as a machine (refines the table of matrix powers)
            and a walker machine whose behaviour counts (NPaths, from its own transition
            relation) equal the matrix powers, on every 0/1 digraph n<=4;
          * lemma: on every connected graph n<=4(5) / strongly connected digraph n=3 with
            weights {1,2}: the Cramer solutions of the MFPT / PageRank equations satisfy them
            exactly; rounded to 10^-6 (down, half-up, up) they stay within the spec-computed
            budgets; a perturbed output is rejected; nothing overflows.  Constant-level
            lemmas: closed forms of diag expm / Perron vectors of K2, K3, C4, P3, S4, K4.
gen/run:  findwalks, mean_first_passage_time, diffusion_efficiency, pagerank_centrality,
          eigenvector_centrality_und, subgraph_centrality on TLC-enumerated graphs, a list of
          highly symmetric graphs (cycles, complete, complete bipartite, regular, disjoint
          copies) and seeded random graphs.
validate: spec/Trace_RandomWalk.tla judges every record (one record per real call).

          findwalks also in the regimes of SCALE (scale_jobs: 9..100 nodes, walk counts beyond 2^31,
          2^53, 2^63, 3.4e38), each returned float encoded as 24-bit mantissa / exponent / residue
          mod 999983 (big_enc) and judged by Trace_RandomWalk!JudgeFwBig.

Python only calls bctpy and encodes numbers (integers exactly, reals as round(x*10^6)).
EXACT: findwalks; MFPT (n<=7) and PageRank (n<=5) where the spec can solve the defining
equation by Cramer within 32 bits.
RESIDUAL / BOUND checks only: PageRank beyond that, eigenvector centrality, subgraph centrality
(series with remainder bound), diffusion efficiency (inverse of the observed MFPT).
"""
import math
import random

import numpy as np

from .. import core, encode, inputs, pool
from . import rel_common as rc

TLA, CFG = "Trace_RandomWalk.tla", "Trace_RandomWalk.cfg"
BIG_P = 999983          # RandomWalk!BigP
KIND = {"findwalks": "findwalks", "mean_first_passage_time": "mfpt",
        "diffusion_efficiency": "ediff", "pagerank_centrality": "pagerank",
        "eigenvector_centrality_und": "eigvec", "subgraph_centrality": "subgraph"}


# ------------------------------------------------------------------ one call
def real(x):
    """float array of a possibly complex-typed result; ValueError if truly complex."""
    x = np.asarray(x)
    if np.iscomplexobj(x):
        if np.max(np.abs(x.imag), initial=0.0) > 1e-9:
            raise ValueError("complex output")
        x = x.real
    return x.astype(float)


def big_enc(x):
    """a returned walk count (any magnitude) as three 32-bit integers (RandomWalk.tla, "walk counts
    beyond 32 bits"): (m, e) with x = m * 2^e exactly below 2^24, else a 24-bit mantissa
    (|x - m 2^e| <= 2^e / 2), and r = x mod BIG_P as an exact integer.  Pure encoding: nothing is
    compared here.  A non-integer value cannot be encoded (-> malformed, as with encode.e_int)."""
    x = float(x)
    if math.isnan(x):
        return encode.NAN, 0, 0
    if math.isinf(x):
        return (encode.INF if x > 0 else encode.NINF), 0, 0
    if x != round(x):
        raise ValueError("not an integer: %r" % x)
    ax = abs(x)
    if ax < 2 ** 24:
        m, e = int(ax), 0
    else:
        mant, ex = math.frexp(ax)            # ax = mant * 2^ex, 0.5 <= mant < 1
        m, e = int(round(mant * 2 ** 24)), ex - 24
        if m == 2 ** 24:
            m, e = 2 ** 23, e + 1
    return (m if x >= 0 else -m), e, int(x) % BIG_P


def big_enc_arr(a):
    """-> three nested lists (m, e, r) of the shape of a"""
    a = np.asarray(a, dtype=float)
    if a.ndim == 0:
        return big_enc(a)
    parts = [big_enc_arr(v) for v in a]
    return [p[0] for p in parts], [p[1] for p in parts], [p[2] for p in parts]


def arg_dtype(fn, dtype):
    """what routine `fn` may be handed for a drawn dtype (rel_common.admissible): findwalks is
    documented for binary networks and returns walk COUNTS (bool allowed; structural: float32
    allowed, exact below 2^24).  MFPT, diffusion efficiency, PageRank and the two spectral
    measures return real values -> no float32, and no bool either for the spectral ones: scipy's
    eigh computes a boolean matrix in SINGLE precision, i.e. bool is float32 in disguise there and
    1e-6 noise on a real-valued output is legitimate.  None copies its argument to float before
    multiplying it -> no unsigned type."""
    fn = fn.split(":")[0]
    return rc.admissible(dtype, binary=fn == "findwalks", structural=fn == "findwalks")


def exec_job(job):
    import bct
    fn = job["fn"].split(":")[0]
    A0 = np.array(job["A"], dtype=float)
    n = len(A0)
    rec = dict(fn=job["fn"], kind="fwbig" if job.get("big") else KIND[fn], n=n, A=encode.mat_int(A0),
               raised="", malformed="")

    def A():        # a fresh argument array per call: same values, drawn dtype / memory layout
        return rc.as_variant(A0, job.get("dtype", "float64"), job.get("layout", "C"))
    A()
    try:
        if fn == "findwalks":
            out = bct.findwalks(A())
        elif fn == "mean_first_passage_time":
            out = bct.mean_first_passage_time(A())
        elif fn == "diffusion_efficiency":
            out = (bct.mean_first_passage_time(A()),) + tuple(bct.diffusion_efficiency(A()))
        elif fn == "pagerank_centrality":
            rec["dp"], rec["dq"] = job["dp"], job["dq"]
            f = job.get("f")
            rec["f"] = [int(v) for v in f] if f else [1] * n
            # the prior in the caller's units (seed round 7): only its proportions matter, so the
            # real call may see f / 2 or f / 4 (fractional entries, some below 1) while the record and
            # the specification keep the integers; float dtype only (a power of two: exact)
            fa = None
            if f:
                fa = np.array(f, dtype=job.get("f_dtype", "float64"))
                if job.get("f_den") and fa.dtype.kind == "f":
                    fa = fa / job["f_den"]
            out = bct.pagerank_centrality(A(), job["dp"] / job["dq"], falff=fa)
        elif fn == "eigenvector_centrality_und":
            out = bct.eigenvector_centrality_und(np.asmatrix(A()) if job.get("as_matrix") else A())
        elif fn == "subgraph_centrality":
            out = bct.subgraph_centrality(np.asmatrix(A()) if job.get("as_matrix") else A())
        else:
            raise KeyError(fn)
    except pool.CallTimeout:
        raise
    except Exception as e:
        rec["raised"] = encode.exc_name(e)
        out = None
    # every field the judge may read is present, whatever happened
    blank = {"findwalks": dict(Wq=[], twalk=-1, wlq=[]), "mfpt": dict(M=[]),
             "ediff": dict(M=[], E=[], g=-1), "pagerank": dict(r=[]),
             "eigvec": dict(v=[]), "subgraph": dict(c=[]),
             "fwbig": dict(Wm=[], We=[], Wr=[], tw=[0, 0, 0], wlm=[], wle=[], wlr=[])}[rec["kind"]]
    rec.update(blank)
    if out is None:
        return rec
    try:
        if rec["kind"] == "fwbig":
            Wq, twalk, wlq = out
            Wq = np.asarray(Wq)
            rec["Wm"], rec["We"], rec["Wr"] = big_enc_arr(np.moveaxis(Wq, 2, 0))      # [k][i][j]
            rec["tw"] = list(big_enc(twalk))
            rec["wlm"], rec["wle"], rec["wlr"] = big_enc_arr(np.asarray(wlq).ravel())
        elif fn == "findwalks":
            Wq, twalk, wlq = out
            Wq = np.asarray(Wq)
            rec["Wq"] = [encode.mat_int(Wq[:, :, q]) for q in range(Wq.shape[2])]
            rec["twalk"] = encode.e_int(twalk)
            rec["wlq"] = encode.vec_int(wlq)
        elif fn == "mean_first_passage_time":
            rec["M"] = encode.mat_q(real(out))
        elif fn == "diffusion_efficiency":
            rec["M"] = encode.mat_q(real(out[0]))
            rec["g"] = encode.e_q(real(out[1]))
            rec["E"] = encode.mat_q(real(out[2]))
        elif fn == "pagerank_centrality":
            rec["r"] = encode.vec_q(real(out))
        elif fn == "eigenvector_centrality_und":
            rec["v"] = encode.vec_q(real(out))
        elif fn == "subgraph_centrality":
            rec["c"] = encode.vec_q(real(out))
    except (ValueError, IndexError, TypeError) as e:
        rec["malformed"] = str(e)[:80]
        rec.update(blank)
    return rec


# -------------------------------------------------------------------- inputs
def und(n, edges, w=None):
    return inputs.mat_from_edges(n, edges, und=True, w=w)


def cycle(n):
    return [(i, (i + 1) % n) for i in range(n)] if n > 2 else [(0, 1)]


def complete(n):
    return [(i, j) for i in range(n) for j in range(i + 1, n)]


def bipartite(a, b):
    return [(i, a + j) for i in range(a) for j in range(b)]


def disjoint(parts):
    """parts = [(n, edges), ...] -> (n_total, edges)"""
    off, E = 0, []
    for n, edges in parts:
        E += [(i + off, j + off) for i, j in edges]
        off += n
    return off, E


def symmetric_graphs():
    """highly symmetric graphs with repeated eigenvalues (the statement's 'especially')."""
    out = []
    for n in range(3, 9):
        out.append(("C%d" % n, n, cycle(n)))
    for n in range(2, 6):
        out.append(("K%d" % n, n, complete(n)))
    for a, b in [(1, 3), (1, 4), (2, 2), (2, 3), (3, 3), (2, 4), (1, 2)]:
        out.append(("K%d,%d" % (a, b), a + b, bipartite(a, b)))
    for name, parts in [("2K2", [(2, [(0, 1)])] * 2), ("2K3", [(3, complete(3))] * 2),
                        ("2C4", [(4, cycle(4))] * 2), ("K3+C4", [(3, complete(3)), (4, cycle(4))]),
                        ("K2+K3", [(2, [(0, 1)]), (3, complete(3))]), ("3K2", [(2, [(0, 1)])] * 3),
                        ("C4+K1", [(4, cycle(4)), (1, [])]), ("K2+P3", [(2, [(0, 1)]), (3, [(0, 1), (1, 2)])]),
                        ("C5+C5", [(5, cycle(5))] * 2)]:
        n, E = disjoint(parts)
        out.append((name, n, E))
    cube = [(i, i ^ (1 << b)) for i in range(8) for b in range(3) if i < i ^ (1 << b)]
    out.append(("cube", 8, cube))
    petersen = [(i, (i + 1) % 5) for i in range(5)] + [(i, i + 5) for i in range(5)] + \
               [(5 + i, 5 + (i + 2) % 5) for i in range(5)]
    out.append(("petersen", 10, petersen))
    prism = cycle(3) + [(3 + i, 3 + j) for i, j in cycle(3)] + [(i, i + 3) for i in range(3)]
    out.append(("prism", 6, prism))
    octa = [(i, j) for i in range(6) for j in range(i + 1, 6) if j != i + 3]
    out.append(("octahedron", 6, octa))
    for n in range(2, 8):
        out.append(("P%d" % n, n, [(i, i + 1) for i in range(n - 1)]))
    return out


def J(fn, A, src, variant=rc.PLAIN, **kw):
    A = np.asarray(A)
    dt = variant[0]
    if dt == "bool" and not np.all((A == 0) | (A == 1)):
        dt = "int32"
    return dict(fn=fn, A=[[int(v) for v in row] for row in A], src=src, dtype=arg_dtype(fn, dt),
                layout=variant[1], **kw)


def draw(rng, A, p_plain):
    """(dtype, layout) draw for one input: 0/1 -> DT_BIN, other non-negative integers -> DT_COUNT;
    p_plain None = the historical float64 C-contiguous array"""
    if p_plain is None:
        return rc.PLAIN
    A = np.asarray(A)
    return rc.draw_variant(rng, rc.DT_BIN if np.all((A == 0) | (A == 1)) else rc.DT_COUNT, p_plain)


def walk_jobs(A, src, rng, falff=False, p_plain=None):
    """the random-walk measures on one (strongly) connected weighted input."""
    n = len(A)
    v = draw(rng, A, p_plain)
    out = [J("mean_first_passage_time", A, src, v), J("diffusion_efficiency", A, src, v),
           J("pagerank_centrality:d=0.5", A, src, v, dp=1, dq=2),
           J("pagerank_centrality:d=0.85", A, src, v, dp=17, dq=20)]
    if falff:
        # the initial-probability vector: non-uniform, uniform but explicit (must equal None), or
        # concentrated on few nodes; handed over as a float or an integer array
        f = rng.choice([[rng.randint(1, 3) for _ in range(n)], [2] * n,
                        [1 if rng.random() < 0.4 else 3 for _ in range(n)]])
        out.append(J("pagerank_centrality:d=0.85:falff", A, src, v, dp=17, dq=20, f=f,
                     f_dtype=rng.choice(["float64", "int64"]) if p_plain is not None else "float64",
                     f_den=rng.choice([0, 2, 4])))
    return out


def spectral_jobs(A, src, rng=None, p_plain=None):
    v = draw(rng, A, p_plain)
    out = [J("eigenvector_centrality_und", A, src, v), J("subgraph_centrality", A, src, v)]
    if rng is not None and rng.random() < 0.15:
        # the adjacency matrix as an np.matrix (np.asmatrix, .todense() of a sparse matrix): what numpy
        # returns for it keeps the subclass, and `*` on that is a matrix product
        out += [dict(j, as_matrix=1, src=src + "+np.matrix") for j in out]
    return out


def weightings(rng, edges, k):
    """up to k weight vectors over {1,2} for the edge list: all of them if there are <= k."""
    m = len(edges)
    if 2 ** m <= k:
        return [[1 + ((c >> b) & 1) for b in range(m)] for c in range(2 ** m)]
    return [[1] * m, [2] * m] + [[rng.choice([1, 2]) for _ in range(m)] for _ in range(k - 2)]


def clique_path(c, L, joined):
    """a clique on c nodes and a path on L further nodes (hanging off clique node c-1 if joined)"""
    E = complete(c) + [(c + i, c + i + 1) for i in range(L - 1)]
    if joined and L:
        E.append((c - 1, c))
    return c + L, E


def circulant(n, offsets):
    """arcs i -> i+o (mod n): a regular digraph (a graph if the offsets are closed under negation)"""
    return [(i, (i + o) % n) for i in range(n) for o in offsets]


def scale_jobs(rng, q):
    """findwalks in the regimes of SCALE that the small inputs never reach: the largest walk count
    (about maxdegree^n) passes 2^31 (n >= 10 dense), 2^53 (n >= 14), 2^63 (K17, random n >= 22) and
    the float32 range 3.4e38 (K28, clique+path).  Families: dense random (di)graphs, complete graphs,
    complete bipartite K(a,a), long cycles, circulant digraphs (all regular: closed-form row sums),
    clique + path (huge and tiny counts in one call).  Judged by Trace_RandomWalk!JudgeFwBig on an
    encoding that never hands TLC more than 24 bits of a number."""
    fam = []
    reps = 1 if q else 2

    def dense(lo, hi):
        n = rng.randint(lo, hi)
        isund = rng.random() < 0.5
        A = inputs.rand_graph(rng, n, rng.choice([0.5, 0.7, 0.9]), und=isund)
        if rng.random() < 0.3:
            A[rng.randrange(n), rng.randrange(n)] = 1                  # maybe a self-loop
        fam.append(("dense-%s%d" % ("und" if isund else "dir", n), A))

    def graph(name, n, edges, isund=True):
        fam.append((name, inputs.mat_from_edges(n, edges, und=isund)))

    for lo, hi in reps * ([(9, 13), (14, 16), (17, 21), (22, 26)] + ([] if q else [(9, 16), (17, 26), (27, 33), (34, 40)])):
        dense(lo, hi)
    for lo, hi in reps * ([(17, 22), (28, 32)] + ([] if q else [(9, 16), (33, 40)])):
        n = rng.randint(lo, hi)
        graph("K%d" % n, n, complete(n))
    for lo, hi in reps * ([(9, 13)] + ([] if q else [(5, 8), (14, 20)])):
        a = rng.randint(lo, hi)
        graph("K%d,%d" % (a, a), 2 * a, bipartite(a, a))
    for lo, hi in reps * ([(34, 40)] + ([] if q else [(41, 65), (66, 72), (73, 100)])):
        n = rng.randint(lo, hi)
        graph("C%d" % n, n, cycle(n))
    for lo, hi in reps * ([(18, 24)] + ([] if q else [(10, 17), (25, 36)])):
        n = rng.randint(lo, hi)
        offs = rng.sample(range(1, n), rng.randint(3, n // 2))
        graph("circulant%d/%d" % (n, len(offs)), n, circulant(n, offs), isund=False)
    for (clo, chi), (nlo, nhi) in reps * ([((12, 16), (40, 48))] + ([] if q else [((5, 9), (24, 40)), ((14, 20), (50, 60))])):
        c, n = rng.randint(clo, chi), rng.randint(nlo, nhi)
        joined = rng.random() < 0.7
        nn, E = clique_path(c, n - c, joined)
        graph("clique%d+path%d%s" % (c, n - c, "" if joined else "-apart"), nn, E)
    out = []
    for name, A in fam:
        if rng.random() < 0.6:                                          # shuffled numbering
            perm = list(range(len(A)))
            rng.shuffle(perm)
            A = A[np.ix_(perm, perm)]
        out.append(J("findwalks:scale", A, "scale:" + name, draw(rng, A, 0.4), big=1))
    return out


def mid_jobs(rng, q):
    """the other routines beyond the small sizes, as far as the 32-bit residual / bound clauses reach
    (12..24 nodes; the spec skips what exceeds its magnitude preconditions): dense connected
    (di)graphs, regular circulants (PageRank's lcm of the column sums stays small), cycles, paths,
    complete bipartite graphs."""
    out = []
    for rep in range(1 if q else 4):
        n = rng.randint(12, 24)
        A = inputs.rand_graph(rng, n, rng.choice([0.4, 0.6]), und=True, connected=True)
        out += walk_jobs(A, "mid:dense-und%d" % n, rng, falff=rng.random() < 0.5, p_plain=0.4)
        n = rng.randint(12, 24)
        A = inputs.rand_graph(rng, n, rng.choice([0.3, 0.5]), und=False, connected=True)
        out += walk_jobs(A, "mid:dense-dir%d" % n, rng, falff=rng.random() < 0.5, p_plain=0.4)
        n = rng.randint(12, 24)
        offs = [1] + rng.sample(range(2, n), rng.randint(1, 4))
        A = inputs.mat_from_edges(n, circulant(n, offs), und=False)
        out += walk_jobs(A, "mid:circulant%d/%d" % (n, len(offs)), rng, falff=True, p_plain=0.4)
        n = rng.randint(12, 24)
        A = und(n, cycle(n))
        out += walk_jobs(A, "mid:C%d" % n, rng, p_plain=0.4)
        for name, edges_of in [("C", cycle), ("P", lambda n: [(i, i + 1) for i in range(n - 1)]),
                               ("circ12-", lambda n: circulant(n, [1, 2])), ("K3,", lambda n: bipartite(3, n - 3))]:
            n = rng.randint(12, 20)
            out += spectral_jobs(und(n, edges_of(n)), "mid:%s%d" % (name, n), rng, p_plain=0.4)
    # several disjoint copies of one small graph under a shuffled numbering (12..20 nodes): the largest
    # eigenvalue is repeated and its eigenspace mixes the components - the degenerate case of every
    # spectral measure (a single connected graph has a simple largest eigenvalue)
    for rep in range(45 if q else 300):      # (a slip that needs a mixed-sign basis vector shows on ~8 % of them)
        m, part = rng.choice([(5, cycle(5)), (3, complete(3)), (4, complete(4)), (4, cycle(4)), (6, cycle(6)),
                              (4, [(0, 1), (0, 2), (0, 3)])])
        k = rng.choice([3, 3, 4])
        if m * k > 20:
            k = 20 // m
        n = m * k + rng.choice([0, 0, 1])
        lab = list(range(n))
        rng.shuffle(lab)
        E = [(lab[c * m + a], lab[c * m + b]) for c in range(k) for a, b in part]
        out += spectral_jobs(und(n, E), "mid:%dcopies-of-%dnodes" % (k, m), rng, p_plain=0.4)
    return out


def build_jobs(ctx):
    rng = random.Random(ctx.seed)
    q = ctx.quick
    jobs = []
    # ---- findwalks: every 0/1 digraph n=2,3 (self-loop variants), n=4 (sampled quick),
    #      graphs n=5 sampled, random n<=7
    for n in (2, 3):
        for edges in inputs.model_graphs(ctx, "dir", n) if n == 3 else [[], [(0, 1)], [(1, 0)], [(0, 1), (1, 0)]]:
            A = inputs.mat_from_edges(n, edges, und=False)
            jobs.append(J("findwalks", A, "model"))
            B = A.copy()
            for i in rng.sample(range(n), rng.randint(1, n)):
                B[i, i] = 1
            jobs.append(J("findwalks", B, "model-loops"))
    for edges in inputs.sample(rng, inputs.model_graphs(ctx, "dir", 4), 250 if q else 4096):
        jobs.append(J("findwalks", inputs.mat_from_edges(4, edges, und=False), "model"))
    for edges in inputs.model_graphs(ctx, "und", 4):
        jobs.append(J("findwalks", und(4, edges), "model"))
    for edges in inputs.sample(rng, inputs.model_graphs(ctx, "und", 5), 100 if q else 1024):
        jobs.append(J("findwalks", und(5, edges), "model"))
    # a sample of them again as another argument dtype (bool/int32/int64/float32) / memory layout
    for j in inputs.sample(rng, list(jobs), 150 if q else 2000):
        jobs.append(J("findwalks", j["A"], j["src"] + "-variant", draw(rng, j["A"], 0.0)))
    for k in range(40 if q else 400):
        if rng.random() < 0.6:
            n = rng.randint(5, 7)
            A = inputs.rand_graph(rng, n, rng.choice([0.2, 0.4, 0.7]), und=rng.random() < 0.5)
            src = "random"
        else:       # long paths/cycles (walk counts with period 2), complete graphs (largest counts), ...
            name, n, edges = rc.structured_support(rng, 4, 7)
            isund = rng.random() < 0.5
            A = inputs.mat_from_edges(n, edges if isund else rc.orient(rng, edges), und=isund)
            src = "struct-" + name
        if rng.random() < 0.2:
            A[rng.randrange(len(A)), rng.randrange(len(A))] = 1          # maybe a self-loop
        jobs.append(J("findwalks", A, src, draw(rng, A, 0.4)))
    # ---- random-walk measures: connected graphs n<=4 x ALL weightings over {1,2};
    #      strongly connected digraphs n=3 x all weightings; n=5 / dir n=4 sampled
    walk_start = len(jobs)
    jobs += walk_jobs(und(2, [(0, 1)]), "model", rng) + walk_jobs(und(2, [(0, 1)], [2]), "model", rng)
    for n in (3, 4):
        for edges in inputs.model_graphs(ctx, "und", n):
            if not inputs.is_connected(und(n, edges), True):
                continue
            for w in weightings(rng, edges, 64 if (n == 3 or not q) else 6):
                jobs += walk_jobs(und(n, edges, w), "model", rng, falff=rng.random() < 0.35)
    for edges in inputs.model_graphs(ctx, "dir", 3):
        A0 = inputs.mat_from_edges(3, edges, und=False)
        if not inputs.is_connected(A0, False):
            continue
        for w in weightings(rng, edges, 64 if not q else 8):
            jobs += walk_jobs(inputs.mat_from_edges(3, edges, und=False, w=w), "model", rng,
                              falff=rng.random() < 0.35)
    g5 = [e for e in inputs.model_graphs(ctx, "und", 5) if inputs.is_connected(und(5, e), True)]
    for edges in inputs.sample(rng, g5, 60 if q else 728):
        w = [rng.choice([1, 2]) for _ in edges] if rng.random() < 0.6 else None
        jobs += walk_jobs(und(5, edges, w), "model", rng)
    d4 = [e for e in inputs.model_graphs(ctx, "dir", 4)
          if inputs.is_connected(inputs.mat_from_edges(4, e, und=False), False)]
    for edges in inputs.sample(rng, d4, 80 if q else 1606):
        w = [rng.choice([1, 2]) for _ in edges] if rng.random() < 0.6 else None
        jobs += walk_jobs(inputs.mat_from_edges(4, edges, und=False, w=w), "model", rng)
    for name, n, edges in symmetric_graphs():
        A = und(n, edges)
        if n >= 2 and inputs.is_connected(A, True):
            jobs += walk_jobs(A, "symmetric:" + name, rng)
    # a sample of those inputs again as int32/int64 arrays / other memory layouts, with falff
    seen_in = {}
    for j in jobs[walk_start:]:
        seen_in.setdefault(str(j["A"]), j)
    for j in inputs.sample(rng, sorted(seen_in.values(), key=lambda j: str(j["A"])), 70 if q else 1500):
        jobs += walk_jobs(np.array(j["A"]), j["src"] + "-variant", rng, falff=rng.random() < 0.5, p_plain=0.0)
    for k in range(30 if q else 400):                       # random, some with self-loops
        n = rng.randint(5, 7)
        isund = rng.random() < 0.5
        A = inputs.rand_graph(rng, n, rng.choice([0.3, 0.5]), und=isund, wmax=rng.choice([1, 3, 3]), connected=True)
        if rng.random() < 0.2:
            A[rng.randrange(n), rng.randrange(n)] += 1      # a self-loop (or a heavier edge)
            if isund:
                A = np.maximum(A, A.T)
        jobs += walk_jobs(A, "random", rng, falff=rng.random() < 0.35, p_plain=0.4)
    for k in range(20 if q else 300):                       # structured (strongly) connected supports
        name, n, edges = rc.structured_support(rng, 4, 7)
        isund = rng.random() < 0.6
        ws = rng.choice([[1], [1, 2], [2], [1, 2, 3]])
        arcs = edges if isund else rc.orient(rng, edges)
        A = inputs.mat_from_edges(n, arcs, und=isund, w=[rng.choice(ws) for _ in arcs])
        if inputs.is_connected(A, isund):
            jobs += walk_jobs(A, "struct-" + name, rng, falff=rng.random() < 0.35, p_plain=0.4)
    # out of domain on purpose (must be skipped by the spec, not judged): a disconnected graph
    jobs += walk_jobs(und(4, [(0, 1), (2, 3)]), "out-of-domain", rng)
    # ---- spectral measures: every graph n<=4 (0/1 and a {1,2}-weighting), n=5 (sampled
    #      quick), the symmetric list, random sparse n<=9
    spec_start = len(jobs)
    for n in (1, 2, 3, 4):
        gl = inputs.model_graphs(ctx, "und", n) if n >= 3 else ([[]] if n == 1 else [[], [(0, 1)]])
        for edges in gl:
            jobs += spectral_jobs(und(n, edges), "model")
            if edges:
                jobs += spectral_jobs(und(n, edges, [rng.choice([1, 2]) for _ in edges]), "model-weighted")
    for edges in inputs.sample(rng, inputs.model_graphs(ctx, "und", 5), 150 if q else 1024):
        jobs += spectral_jobs(und(5, edges), "model")
    for name, n, edges in symmetric_graphs():
        jobs += spectral_jobs(und(n, edges), "symmetric:" + name)
    for j in inputs.sample(rng, jobs[spec_start::2], 100 if q else 1500):
        jobs += spectral_jobs(np.array(j["A"]), j["src"] + "-variant", rng, p_plain=0.0)
    for k in range(40 if q else 500):
        if rng.random() < 0.6:
            n = rng.randint(6, 9)
            A = inputs.rand_graph(rng, n, rng.choice([0.15, 0.25, 0.35]), und=True, wmax=rng.choice([1, 1, 2]))
            src = "random"
        else:       # equal components (repeated eigenvalues), stars / bipartite (symmetric spectra), ...
            name, n, edges = rc.structured_support(rng, 5, 9)
            A = und(n, edges)
            src = "struct-" + name
        if rng.random() < 0.15:
            A[0, 0] = 1                                      # a self-loop
        jobs += spectral_jobs(A, src, rng, p_plain=0.4)
    # ---- findwalks in the other regimes of scale (own RNG stream: the draws above stay as they were)
    jobs += scale_jobs(random.Random(ctx.seed * 1000003 + 18), q)
    jobs += mid_jobs(random.Random(ctx.seed * 1000003 + 19), q)
    return jobs


# ----------------------------------------------------------------------- run
def what(job, rec, clause):
    return "n=%d source=%s dtype=%s layout=%s A=%s" % (
        len(job["A"]), job.get("src"), job.get("dtype", "float64"), job.get("layout", "C"),
        job["A"] if len(job["A"]) <= 5 else "...")


def run(ctx):
    tag = "" if ctx.quick else "_thorough"
    models = [lambda: ctx.mc("MC_RandomWalk.tla", "MC_RandomWalk_walk%s.cfg" % tag, workers=8),
              lambda: ctx.mc("MC_RandomWalk.tla", "MC_RandomWalk_lemma%s.cfg" % tag, workers=8)]
    if not ctx.quick:        # termination of the findwalks loop as a liveness property (small domain)
        models.append(lambda: ctx.mc("MC_RandomWalk.tla", "MC_RandomWalk_live.cfg", workers=4))
    ctx.parallel(models, width=3)
    jobs = build_jobs(ctx)
    recs = pool.run_jobs(__name__, jobs, reuse=True, abort=True, strict_fp=True)
    # the scale-regime records are large (n^3 encoded counts each): their own small batches, next to
    # the batches of the small records
    big = [k for k, j in enumerate(jobs) if j.get("big")]
    small = [k for k, j in enumerate(jobs) if not j.get("big")]
    parts = ctx.parallel([lambda: ctx.validate(TLA, CFG, [recs[k] for k in small]),
                          lambda: ctx.validate(TLA, CFG, [recs[k] for k in big], tag="Trace_RandomWalk_scale", chunk=10)],
                         width=2)
    verdicts = [None] * len(jobs)
    for ks, vs in zip((small, big), parts):
        for k, v in zip(ks, vs):
            verdicts[k] = v
    ctx.judge(jobs, rc.tag_failures(ctx, jobs, recs, verdicts), verdicts, what)
    ctx.extra["argument_variants"] = rc.variant_counts(jobs)
    seen, per = set(), {}
    for j, r, v in zip(jobs, recs, verdicts):
        if r.get("timeout") or v[0].startswith("skip:"):
            continue
        per[r["kind"]] = per.get(r["kind"], 0) + 1
        if r["n"] >= 3 and any(any(row) for row in r["A"]):
            seen.add((j["fn"], str(j["A"]), str(j.get("f"))))
    ctx.nontrivial = len(seen)
    ctx.exhaustive = True
    ctx.extra["judged_per_kind"] = per
    ctx.extra["judged_exact"] = {k: sum(1 for r, v in zip(recs, verdicts)
                                        if r.get("kind") == k and v[0] == "ok" and v[1] == "same")
                                 for k in ("findwalks", "mfpt", "pagerank")}
    ctx.rule = ("findwalks: every 0/1 digraph on 2..3 nodes (+ self-loop variants), %s digraphs on 4 nodes, every "
                "graph on 4 nodes, graphs on 5 nodes, random n<=7.  Random-walk measures (MFPT, diffusion "
                "efficiency, PageRank d in {1/2, 17/20}, some with a non-uniform falff): every connected graph on "
                "2..4 nodes x %s weightings over {1,2}, every strongly connected digraph on 3 nodes x %s weightings, "
                "%s connected graphs on 5 nodes, %s strongly connected digraphs on 4 nodes, the connected members "
                "of a list of highly symmetric graphs (cycles C3..C8, K2..K5, complete bipartite, cube, Petersen, "
                "prism, octahedron, paths), seeded random connected graphs n in 5..7 with weights 1..3 (some "
                "self-loops).  Spectral measures: every graph on 1..4 nodes (0/1 and one random {1,2} weighting), "
                "%s graphs on 5 nodes, the symmetric list incl. disjoint copies, random sparse graphs n in 6..9.  "
                "Graph supports are TLC-enumerated (spec/GenGraphs.tla).  A sample of every family again, and most random "
                "inputs, as another argument dtype (findwalks: bool/int32/int64/float32; the others int32/int64) "
                "and memory layout (Fortran, transposed, window, strided); structured supports "
                "(paths, cycles, stars, complete, bipartite, caterpillars, rings of cliques, equal/unequal components) "
                "for all three groups; falff non-uniform / explicit uniform / concentrated, as float or int array; all "
                "choices drawn from the seeded RNG.  SCALE regimes (findwalks:scale, %d inputs, 9..%d nodes; "
                "largest walk count beyond 2^31 / 2^53 / 2^63 / 3.4e38): dense random (di)graphs, complete graphs, "
                "K(a,a), long cycles, circulant digraphs, clique + path, shuffled numbering, all argument "
                "dtypes/layouts - judged on a mantissa/exponent/residue encoding (non-negative; exact below 2^24 "
                "and, mod 999983, below 2^53; slice recurrence, regular-graph row sums and totals to 24 bits).  "
                "The other routines also on 12..24 nodes (dense, circulant, cycle, path, K(3,b)) as far as the "
                "32-bit clauses reach.  non-trivial = distinct (routine, input) "
                "with n >= 3 and at least one connection that the specification judged (not skipped)"
                % ((("250 sampled", "up to 6 (n=4) / all (n<=3)", "up to 8", "60 sampled", "80 sampled", "150 sampled")
                    if ctx.quick else ("all", "all", "all", "all 728", "all 1606", "all 1024"))
                   + (sum(1 for j in jobs if j.get("big")), max([len(j["A"]) for j in jobs if j.get("big")] or [0]))))
    for kind in ("findwalks", "mfpt", "ediff", "pagerank", "eigvec", "subgraph"):
        for j, r in zip(jobs, recs):
            if r.get("kind") == kind and r["n"] == 4 and j["src"].startswith("model"):
                ctx.add_sample("model-input:" + j["fn"], dict(job=j, record=r), limit=8)
                break
    ctx.add_sample("random-input", dict(job=jobs[-1], record=recs[-1]), limit=8)
    ctx.extra["explanation"] = (
        "TLC is the judge of every record.  EXACT: findwalks (integer matrix powers = behaviour counts of the "
        "walker machine); mean_first_passage_time for n<=7 and pagerank_centrality for n<=5 where the integer "
        "determinants fit 32 bits (compared with the Cramer solution of the defining equation, 2e-6; counted in "
        "judged_exact).  RESIDUAL checks on the 1e-6 fixed-point image with spec-derived rounding budgets: MFPT "
        "equation (any n), PageRank equation (scale 1e-6..1e-3 chosen by the spec so that 32-bit products fit), "
        "diffusion efficiency (inverse of the MFPT the code itself returns, 3e-6; mean, exact up to rounding).  "
        "BOUND checks: eigenvector centrality (parallelism by cross products at 1e-4, eigenvalue inside "
        "Collatz-Wielandt bounds of every component, Perron positivity where decidable at 1e-6), subgraph "
        "centrality (exact partial sums of the exponential series + rigorous remainder; only for max strength "
        "<= 4, tolerance <= 3e-4).  SCALE regime of findwalks (9..127 nodes, counts up to 1e80): every returned float "
        "enters TLC as a 24-bit mantissa, an exponent and its residue mod 999983; judged are non-negativity, exact "
        "equality with the power clipped at 2^24, equality mod 999983 with the power for every value below 2^53, the "
        "recurrence Wq[k+1] = Wq[k].A between the returned slices in interval arithmetic (relative ~1e-5), row/column "
        "sums = degree^k on regular graphs, and the totals.  None of the residual/bound clauses is an accuracy claim on ill-conditioned input.")
    ctx.assumptions += [
        "TLC evaluates the L0 definitions correctly; determinants by Laplace expansion, lcm, long division (BctRational)",
        "observed reals enter as round(x*1e6); a budget of one whole unit per observed value covers the rounding "
        "(<= 0.55) and the float error of the code (assumed < 0.45e-6 absolute on these small inputs)",
        "PageRank's D is read as the diagonal of COLUMN sums (the only reading that makes A D^-1 stochastic; it is "
        "what the code divides by); f = falff/sum(falff), uniform when falff is None; d is passed as the float p/q",
        "the statement's MFPT equation is demanded for i != j only; the code's zero diagonal is neither required nor rejected",
        "findwalks: two slice conventions are accepted (slice q = walks of q+1 steps as in BCT's findwalks.m, or slice "
        "q = walks of q steps as the docstring says, slice 0 then unconstrained); only 0/1 input is judged",
        "findwalks beyond n = 8: a returned float below 2^53 is taken to claim the exact count (float64 sums of "
        "non-negative integers are exact there), above it only a relative accuracy of about 3 (indegree+1) 2^-23 per "
        "slice step is demanded; equality mod the prime 999983 misses a wrong value with probability 1e-6 per entry",
        "eigenvector/subgraph centrality are judged on symmetric non-negative integer matrices only; integer weights <= 3",
        "closed-form constants (cosh 1, (e^2+2/e)/3, ...) used by the constant-level lemmas of MC_RandomWalk.tla were "
        "computed outside TLC",
        "inputs with magnitudes beyond the 32-bit budgets are skipped by the specification (counted in skipped_out_of_domain)",
        "weights of the model graphs are chosen by the harness RNG (VERIF_SEED) where not exhaustive"]
    return ctx.finish(level="other")


def replay(ctx, rp):
    job = rp["job"]
    recs = pool.run_jobs(__name__, [job])
    verdicts = ctx.validate(TLA, CFG, recs)
    core.log("replay verdict:", verdicts[0])
    core.log("  call: %s  A=%s %s" % (job["fn"], job["A"] if len(job["A"]) <= 8 else "(%d nodes, %s)" % (len(job["A"]), job.get("src")),
                                      {k: job[k] for k in ("dp", "dq", "f") if k in job}))
    core.log("  observed:", {k: v for k, v in recs[0].items() if k not in ("fn", "kind", "n", "A", "Wm", "We", "Wr")
                                and v not in ([], "", -1) and (len(job["A"]) <= 8 or not isinstance(v, list) or len(v) <= 3)})
    ctx.judge([job], recs, verdicts, what)
    return ctx.finish(level="other")
