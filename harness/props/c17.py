"""C17 - thresholding and weight conversion keep exactly the documented entries.

mc:       spec/ThresholdImpl.tla (L2: threshold_proportional with the sort modelled as a
          selection with free choice among ties) refines spec/Threshold.tla (L0: KeepFamily,
          LegalProportional) for every 3x3 matrix / symmetric 4x4 matrix with small entries
          x every p = k/16; TRound = brute definition on the grid; family non-empty, every
          member legal (symmetric for symmetric input).
run:      threshold_proportional on every TLC-enumerated small matrix (entries 0..3: ties are
          the norm, sparse supports) x every p = k/16 (p*K hits .5 many times) x copy flag,
          decorated with diagonals and denominators; threshold_absolute, binarize, normalize,
          invert (+ invert again), weight_conversion x 3 commands on signed matrices x copy
          flag; teachers_round on the grid; seeded random matrices n <= 10.
validate: spec/Trace_Threshold.tla judges every record.
"""
import json
import os
import random

import numpy as np

from .. import core, encode, inputs, pool

TRACE = ("Trace_Threshold.tla", "Trace_Threshold.cfg")
NAN = encode.NAN


def model_matrices(ctx, tag):
    """All matrices enumerated by TLC (spec/ThresholdGen.tla, cfg ThresholdGen_<tag>.cfg)."""
    cache = os.path.join(core.VERIF, ".cache")
    os.makedirs(cache, exist_ok=True)
    path = os.path.join(cache, "c17_matrices_%s.json" % tag)
    if not os.path.exists(path):
        tmp = path + ".%d.tmp" % os.getpid()
        r = ctx._tlc("ThresholdGen.tla", "ThresholdGen_%s.cfg" % tag, "gen_" + tag,
                     env={"GEN_FILE": tmp}, workers=4, timeout=900)
        if "No error has been found" not in r["out"] or not os.path.exists(tmp):
            raise core.MachineryError("ThresholdGen %s failed: %s" % (tag, r["out"][-2000:]))
        os.replace(tmp, path)
    with open(path) as f:
        return json.load(f)


# ------------------------------------------------------------------ real calls
def _units(x, den):
    """x*den as an integer; NAN marker when it is not one (never raises)."""
    out = []
    for row in np.asarray(x):
        r = []
        for v in row:
            v = float(v) * den
            r.append(int(round(v)) if np.isfinite(v) and v == round(v) and abs(v) < 1e9 else NAN)
        out.append(r)
    return out


def _strict_units(x, den):
    return [[encode.e_int(float(v) * den) for v in row] for row in np.asarray(x)]


def _one_call(rec, f, W, den, args, copy, enc_out):
    """one real call on a fresh array; appends the observations to rec; returns the result"""
    arg = np.array(W, dtype=float) / den
    before = arg.copy()
    out = f(arg, *args, copy=bool(copy))
    rec["arg_unchanged"].append(int(before.shape == arg.shape and before.tobytes() == arg.tobytes()))
    rec["result_is_arg"].append(int(out is arg))
    rec["outs"].append(enc_out(out))
    rec["arg_after"].append(_units(arg, den) if copy else enc_out(arg))
    return out


def _blank(job):
    W = job["W"]
    return dict(fn=job["fn"], n=len(W), W=W, den=job.get("den", 1), pd=job.get("pd", 1),
                pks=job.get("pks", []), thr=job.get("thr", 0), copy=job.get("copy", 1),
                wcm=job.get("wcm", ""), outs=[], out2=[], arg_unchanged=[], result_is_arg=[],
                arg_after=[], raised="", malformed="", K=job.get("K", 0), rounds=[])


def _fill(job, rec):
    """a timed-out call still needs every field for TLC (it is booked as inconclusive)"""
    if rec.get("timeout"):
        full = _blank(job)
        full.update(rec)
        full["raised"] = "timeout"
        return full
    return rec


def exec_job(job):
    import bct
    from bct.utils.miscellaneous_utilities import teachers_round
    fn, W, den, copy = job["fn"], job["W"], job.get("den", 1), job.get("copy", 1)
    rec = _blank(job)
    try:
        if fn == "teachers_round":
            rec["rounds"] = [int(teachers_round(pk * job["K"] / job["pd"])) for pk in job["pks"]]
        elif fn == "threshold_proportional":
            for pk in job["pks"]:
                _one_call(rec, bct.threshold_proportional, W, den, (pk / job["pd"],), copy,
                          lambda x: _strict_units(x, den))
        elif fn == "threshold_absolute":
            _one_call(rec, bct.threshold_absolute, W, den, (job["thr"] / den,), copy,
                      lambda x: _strict_units(x, den))
        elif fn == "binarize":
            _one_call(rec, bct.binarize, W, den, (), copy, encode.mat_int)
        elif fn == "normalize":
            _one_call(rec, bct.normalize, W, den, (), copy, encode.mat_q)
        elif fn == "invert":
            out = _one_call(rec, bct.invert, W, den, (), copy, encode.mat_q)
            rec["out2"] = encode.mat_q(bct.invert(out, copy=True))
        elif fn == "weight_conversion":
            wcm = job["wcm"]
            enc = encode.mat_int if wcm == "binarize" else encode.mat_q
            _one_call(rec, lambda a, copy: bct.weight_conversion(a, wcm, copy=copy), W, den, (),
                      copy, enc)
            direct = dict(binarize=bct.binarize, normalize=bct.normalize, lengths=bct.invert)[wcm]
            rec["out2"] = enc(direct(np.array(W, dtype=float) / den, copy=True))
        else:
            raise core.MachineryError("unknown fn " + fn)
    except ValueError as e:          # encoders: a non-integer where an input entry is required
        rec["malformed"] = str(e)[:80]
    except core.MachineryError:
        raise
    except Exception as e:
        rec["raised"] = encode.exc_name(e)
    return rec


# ------------------------------------------------------------------ inputs
def decorate(rng, M, mode):
    """mode 0: as enumerated; 1: nonzero diagonal entries; 2: diagonal + denominator"""
    W = [row[:] for row in M]
    den = 1
    if mode >= 1:
        for i in range(len(W)):
            W[i][i] = rng.choice([0, 1, 3, 5])
    if mode == 2:
        den = rng.choice([2, 4])
    return W, den


def rand_matrix(rng, n, sym, lo, hi, density):
    W = [[0] * n for _ in range(n)]
    for i in range(n):
        for j in range(n):
            if (sym and j < i) or rng.random() > density:
                continue
            W[i][j] = rng.randint(lo, hi)
            if sym:
                W[j][i] = W[i][j]
    return W


def build_jobs(ctx):
    rng = random.Random(ctx.seed)
    q = ctx.quick
    jobs = []
    P16 = list(range(17))
    # ---- threshold_proportional on the model matrices
    plan = [("dir2", None, True), ("sym3", None, True), ("dir3", None, not q),
            ("sym4", 1500 if q else None, not q), ("dir4", 600 if q else None, not q),
            ("sym5", 300 if q else None, False)]
    for tag, cap, both in plan:
        mats = model_matrices(ctx, tag)
        if cap:
            mats = inputs.sample(rng, mats, cap)
        for t, M in enumerate(mats):
            W, den = decorate(rng, M, rng.choice([0, 0, 1, 2]))
            for copy in ([1, 0] if both else [t % 2]):
                jobs.append(dict(fn="threshold_proportional", src="model", W=W, den=den, pd=16,
                                 pks=P16, copy=copy))
    # ---- random larger: ties, zeros, symmetric or not, finer dyadic p
    for t in range(200 if q else 3000):
        n = rng.randint(5, 10)
        W = rand_matrix(rng, n, t % 2 == 0, 0, rng.choice([1, 3, 5]), rng.choice([0.2, 0.5, 0.9, 1.0]))
        for i in range(n):
            W[i][i] = rng.choice([0, 0, 2])
        pd = rng.choice([16, 16, 64])
        pks = P16 if pd == 16 else sorted(rng.sample(range(65), 12))
        jobs.append(dict(fn="threshold_proportional", src="random", W=W, den=rng.choice([1, 1, 2, 4]),
                         pd=pd, pks=pks, copy=t % 3 != 0 and 1 or 0))
    # ---- elementwise utilities on signed matrices (model supports shifted, random)
    base = inputs.sample(rng, model_matrices(ctx, "dir3"), 250 if q else 1500)
    base += inputs.sample(rng, model_matrices(ctx, "sym4"), 150 if q else 800)
    signed = []
    for M in base:
        n = len(M)
        sh = rng.choice([0, 1, 2])
        W = [[(M[i][j] - sh) if (i != j or rng.random() < 0.5) else 0 for j in range(n)] for i in range(n)]
        signed.append((W, rng.choice([1, 1, 2, 4])))
    for t in range(120 if q else 1000):
        n = rng.randint(2, 10)
        signed.append((rand_matrix(rng, n, t % 2 == 0, -6, 6, rng.choice([0.3, 0.8, 1.0])),
                       rng.choice([1, 2, 4])))
    for t, (W, den) in enumerate(signed):
        for copy in ([1, 0] if not q else [t % 2]):
            vals = sorted(set(v for row in W for v in row))
            thrs = {vals[0] - 1, vals[-1] + 1, rng.choice(vals), rng.choice(vals), 0}
            for thr in sorted(thrs):
                jobs.append(dict(fn="threshold_absolute", src="signed", W=W, den=den, thr=thr, copy=copy))
            for fn in ("binarize", "normalize", "invert"):
                jobs.append(dict(fn=fn, src="signed", W=W, den=den, copy=copy))
            for wcm in ("binarize", "normalize", "lengths"):
                jobs.append(dict(fn="weight_conversion", src="signed", W=W, den=den, wcm=wcm, copy=copy))
    # ---- the rounding itself on the grid p = k/16, K <= 30 (and a finer grid)
    for K in range(31):
        jobs.append(dict(fn="teachers_round", src="grid", W=[[0]], K=K, pd=16, pks=P16))
        jobs.append(dict(fn="teachers_round", src="grid", W=[[0]], K=K, pd=64, pks=list(range(65))))
    return jobs


def what(job, rec, clause):
    s = "W=%s den=%s copy=%s" % (rec.get("W"), rec.get("den"), rec.get("copy"))
    if rec.get("fn") == "threshold_proportional":
        s += " p=k/%d" % rec.get("pd", 0)
    if rec.get("fn") == "threshold_absolute":
        s += " thr=%s/%s" % (rec.get("thr"), rec.get("den"))
    if rec.get("wcm"):
        s += " wcm=" + rec["wcm"]
    return s


def bookkeeping(ctx, jobs, recs):
    """coverage counters only (no judgement): how many (W,p) cases had a proper cut, a tie
    at the cut, fewer present than requested, p*K exactly on .5"""
    proper, ties, sparse, half = set(), 0, 0, 0
    for r in recs:
        if r.get("timeout") or r["fn"] != "threshold_proportional" or r["raised"] or r["malformed"]:
            continue
        W = np.array(r["W"])
        n = r["n"]
        off = W[~np.eye(n, dtype=bool)]
        sym = bool((W == W.T).all())
        K = n * (n - 1) // (2 if sym else 1)
        present = int((off != 0).sum()) // (2 if sym else 1)
        for pk, out in zip(r["pks"], r["outs"]):
            O = np.array(out)
            kept = int((O != 0).sum()) // (2 if sym else 1)
            if (2 * pk * K) % (2 * r["pd"]) == r["pd"]:
                half += 1
            if pk * K > r["pd"] * present and present > 0:
                sparse += 1
            if 0 < kept < present:
                proper.add((str(r["W"]), pk, r["pd"]))
                kv = O[O != 0]
                dropped = off[(O[~np.eye(n, dtype=bool)] == 0) & (off != 0)]
                if len(kv) and len(dropped) and kv.min() == dropped.max():
                    ties += 1
    ctx.nontrivial = len(proper)
    ctx.extra["proportional_cases_with_tie_at_cut"] = ties
    ctx.extra["proportional_cases_fewer_present_than_requested"] = sparse
    ctx.extra["proportional_cases_pK_exactly_on_half"] = half


def run(ctx):
    if ctx.quick:
        models = ["MC_Threshold_dir3.cfg", "MC_Threshold_sym4.cfg"]
    else:
        models = ["MC_Threshold_dir3_thorough.cfg", "MC_Threshold_sym4_thorough.cfg",
                  "MC_Threshold_sym5_thorough.cfg"]
    for cfg in models:
        ctx.mc("MC_Threshold.tla", cfg)
    jobs = build_jobs(ctx)
    recs = [_fill(j, r) for j, r in zip(jobs, pool.run_jobs(__name__, jobs))]
    verdicts = ctx.validate(*TRACE, recs, chunk=3000 if ctx.quick else 8000)
    ctx.judge(jobs, recs, verdicts, what)
    bookkeeping(ctx, jobs, recs)
    ctx.exhaustive = True
    ctx.rule = ("threshold_proportional: every matrix with entries 0..3 on 2 and 3 nodes, every "
                "symmetric one on 3 and 4 nodes, every 0/1 matrix on 4 nodes and symmetric 0/1 on 5 "
                "(quick tier samples the three largest families) x every p = k/16 x copy flag, "
                "decorated with diagonals and denominators 1/2/4; seeded random n in 5..10 with "
                "p = k/16 or k/64. Elementwise utilities and weight_conversion: signed shifts of the "
                "model matrices and random signed matrices n <= 10 x copy flag x thresholds around "
                "the occurring values. teachers_round on p = k/16, k/64, K <= 30. "
                "non-trivial = distinct (W, p) of threshold_proportional whose result keeps some but "
                "not all present connections")
    for j, r in zip(jobs, recs):
        if j["fn"] == "threshold_proportional" and r["n"] == 3 and r["copy"] == 0:
            ctx.add_sample("model-input", dict(job=j, record=r))
            break
    ctx.add_sample("signed-input", dict(job=jobs[-70], record=recs[-70]))
    ctx.assumptions += [
        "TLC evaluates the L0 definitions correctly",
        "weights are integers over a denominator 1, 2 or 4 (exact in floating point), |W| <= 100; "
        "p and thr are dyadic, so p x (number of possible connections) is exact and .5 cases are real",
        "outputs of normalize/invert are observed rounded to 10^-6 and judged by cross-multiplication",
        "arg_unchanged / result_is_arg are observed in Python (bitwise comparison, `is`); the clauses "
        "on them are in Trace_Threshold.tla",
    ]
    return ctx.finish()


def replay(ctx, rp):
    job = rp["job"]
    recs = [_fill(job, r) for r in pool.run_jobs(__name__, [job])]
    verdicts = ctx.validate(*TRACE, recs)
    core.log("replay verdict:", verdicts[0])
    ctx.judge([job], recs, verdicts, what)
    return ctx.finish()
