"""C17 - thresholding and weight conversion keep exactly the documented entries.

mc:       spec/ThresholdImpl.tla (L2: threshold_proportional with the sort modelled as a
          selection with free choice among ties) refines spec/Threshold.tla (L0: KeepFamily,
          LegalProportional) for every 3x3 matrix / symmetric 4x4 matrix with small entries
          x every p = k/16; TRound = brute definition on the grid; family non-empty, every
          member legal (symmetric for symmetric input).
run:      threshold_proportional on every TLC-enumerated small matrix (entries 0..3: ties are
          the norm, sparse supports) x every p = k/16 (p*K hits .5 many times) x copy flag,
          decorated with diagonals and denominators; threshold_absolute, binarize, normalize,
          invert (+ invert again), weight_conversion x 3 commands on signed matrices x copy
          flag; teachers_round on the grid; seeded random matrices n <= 10.
validate: spec/Trace_Threshold.tla judges every record.
"""
import json
import os
import random

import numpy as np

from .. import core, encode, inputs, pool
from . import rel_common as rc

TRACE = ("Trace_Threshold.tla", "Trace_Threshold.cfg")
NAN = encode.NAN


def model_matrices(ctx, tag):
    """All matrices enumerated by TLC (spec/ThresholdGen.tla, cfg ThresholdGen_<tag>.cfg)."""
    cache = os.path.join(core.VERIF, ".cache")
    os.makedirs(cache, exist_ok=True)
    path = os.path.join(cache, "c17_matrices_%s.json" % tag)
    if not os.path.exists(path):
        tmp = path + ".%d.tmp" % os.getpid()
        r = ctx._tlc("ThresholdGen.tla", "ThresholdGen_%s.cfg" % tag, "gen_" + tag,
                     env={"GEN_FILE": tmp}, workers=4, timeout=900)
        if "No error has been found" not in r["out"] or not os.path.exists(tmp):
            raise core.MachineryError("ThresholdGen %s failed: %s" % (tag, r["out"][-2000:]))
        os.replace(tmp, path)
    with open(path) as f:
        return json.load(f)


# ------------------------------------------------------------------ real calls
def _units(x, den):
    """x*den as an integer; NAN marker when it is not one (never raises)."""
    out = []
    for row in np.asarray(x):
        r = []
        for v in row:
            v = float(v) * den
            r.append(int(round(v)) if np.isfinite(v) and v == round(v) and abs(v) < 1e9 else NAN)
        out.append(r)
    return out


def _strict_units(x, den):
    return [[encode.e_int(float(v) * den) for v in row] for row in np.asarray(x)]


def arg_dtype(fn, wcm, dtype, W=None):
    """what a utility may be handed for a drawn dtype (rel_common.admissible).  Thresholding and
    binarize return a support / input entries (structural -> float32 allowed); normalize, invert
    and weight_conversion to them return real values (no float32).  None copies to float before
    doing arithmetic on the argument (threshold_proportional's symmetry test subtracts W.T) -> no
    unsigned type.  bool only for binarize of a 0/1 matrix (a boolean mask IS a binary network)."""
    what = wcm or fn
    binary = what == "binarize" and W is not None and all(v in (0, 1) for row in W for v in row)
    return rc.admissible(dtype, binary=binary,
                         structural=what in ("threshold_proportional", "threshold_absolute", "binarize"))


_COPY_FORM = ["py"]


def _one_call(rec, f, W, den, args, copy, enc_out, variant=rc.PLAIN):
    """one real call on a fresh array; appends the observations to rec; returns the result.
    variant: the same values as another argument dtype (only den = 1: integers) / memory layout"""
    arg = rc.as_variant(np.array(W, dtype=float) / den, variant[0], variant[1])
    before = arg.copy()
    # the flag as the caller holds it (seed round 7): a Python bool, a numpy bool (`mask.any()`), an
    # int, a 0-d boolean array - all of them mean the same to `if copy:`
    flag = {"py": bool, "np": np.bool_, "int": int, "zerod": lambda c: np.array(bool(c))}[_COPY_FORM[0]](bool(copy))
    out = f(arg, *args, copy=flag)
    rec["arg_unchanged"].append(int(before.shape == arg.shape and before.tobytes() == arg.tobytes()))
    rec["result_is_arg"].append(int(out is arg))
    rec["outs"].append(enc_out(out))
    rec["arg_after"].append(_units(arg, den) if copy else enc_out(arg))
    return out


def _blank(job):
    W = job["W"]
    return dict(fn=job["fn"], n=len(W), W=W, den=job.get("den", 1), pd=job.get("pd", 1),
                pks=job.get("pks", []), thr=job.get("thr", 0), copy=job.get("copy", 1),
                wcm=job.get("wcm", ""), outs=[], out2=[], arg_unchanged=[], result_is_arg=[],
                arg_after=[], raised="", malformed="", K=job.get("K", 0), rounds=[])


def _fill(job, rec):
    """a timed-out call still needs every field for TLC (it is booked as inconclusive)"""
    if rec.get("timeout"):
        full = _blank(job)
        full.update(rec)
        full["raised"] = "timeout"
        return full
    return rec


def exec_job(job):
    import bct
    from bct.utils.miscellaneous_utilities import teachers_round
    fn, W, den, copy = job["fn"], job["W"], job.get("den", 1), job.get("copy", 1)
    _COPY_FORM[0] = job.get("copy_form", "py")
    var = (job.get("dtype", "float64"), job.get("layout", "C"))
    rec = _blank(job)
    rc.as_variant(np.array(W, dtype=float) / den, *var)      # lossy cast = harness fault, not "raised"
    ends_int = job.get("ptype") == "int"                     # p = 0 / 1, thr typed as Python ints
    try:
        if fn == "teachers_round":
            rec["rounds"] = [int(teachers_round(pk * job["K"] / job["pd"])) for pk in job["pks"]]
        elif fn == "threshold_proportional":
            for pk in job["pks"]:
                p = pk // job["pd"] if (ends_int and pk % job["pd"] == 0) else pk / job["pd"]
                _one_call(rec, bct.threshold_proportional, W, den, (p,), copy,
                          lambda x: _strict_units(x, den), var)
        elif fn == "threshold_absolute":
            thr = job["thr"] // den if (ends_int and job["thr"] % den == 0) else job["thr"] / den
            _one_call(rec, bct.threshold_absolute, W, den, (thr,), copy,
                      lambda x: _strict_units(x, den), var)
        elif fn == "binarize":
            _one_call(rec, bct.binarize, W, den, (), copy, encode.mat_int, var)
        elif fn == "normalize":
            _one_call(rec, bct.normalize, W, den, (), copy, encode.mat_q, var)
        elif fn == "invert":
            out = _one_call(rec, bct.invert, W, den, (), copy, encode.mat_q, var)
            rec["out2"] = encode.mat_q(bct.invert(out, copy=True))
        elif fn == "weight_conversion":
            wcm = job["wcm"]
            enc = encode.mat_int if wcm == "binarize" else encode.mat_q
            _one_call(rec, lambda a, copy: bct.weight_conversion(a, wcm, copy=copy), W, den, (),
                      copy, enc, var)
            direct = dict(binarize=bct.binarize, normalize=bct.normalize, lengths=bct.invert)[wcm]
            rec["out2"] = enc(direct(np.array(W, dtype=float) / den, copy=True))
        else:
            raise core.MachineryError("unknown fn " + fn)
    except ValueError as e:          # encoders: a non-integer where an input entry is required
        rec["malformed"] = str(e)[:80]
    except core.MachineryError:
        raise
    except Exception as e:
        rec["raised"] = encode.exc_name(e)
    return rec


# ------------------------------------------------------------------ inputs
def decorate(rng, M, mode):
    """mode 0: as enumerated; 1: nonzero diagonal entries; 2: diagonal + denominator"""
    W = [row[:] for row in M]
    den = 1
    if mode >= 1:
        for i in range(len(W)):
            W[i][i] = rng.choice([0, 1, 3, 5])
    if mode == 2:
        den = rng.choice([2, 4])
    return W, den


def rand_matrix(rng, n, sym, lo, hi, density):
    W = [[0] * n for _ in range(n)]
    for i in range(n):
        for j in range(n):
            if (sym and j < i) or rng.random() > density:
                continue
            W[i][j] = rng.randint(lo, hi)
            if sym:
                W[j][i] = W[i][j]
    return W


def variant_for(rng, job, p_plain):
    """adds dtype / layout / ptype draws to a job.  Integer dtypes need den = 1 (integer values).
    normalize / invert (and weight_conversion to them) with copy=False cannot hold their real-
    valued result in an integer array ("the argument itself holds the result" is unsatisfiable):
    integer-typed arguments go to them only with copy=True."""
    fn, wcm = job["fn"], job.get("wcm", "")
    if fn == "teachers_round":
        return job
    W = job["W"]
    fam = rc.DT_FLOAT
    if job.get("den", 1) == 1:
        fam = rc.DT_BIN if all(v in (0, 1) for row in W for v in row) else \
            (rc.DT_COUNT if all(v >= 0 for row in W for v in row) else rc.DT_SIGNED)
    dt, lay = rc.draw_variant(rng, fam, p_plain)
    dt = arg_dtype(fn, wcm, dt, W)
    if (wcm or fn) in ("normalize", "invert", "lengths") and not job.get("copy", 1):
        dt = "float64"
    job.update(dtype=dt, layout=lay, ptype=rng.choice(["float", "float", "int"]))
    return job


def special_matrix(rng):
    """matrices that enumeration with entries 0..3 and uniform random ones hardly produce: one
    value everywhere (every weight ties), symmetric with strong self-loops, symmetric except one
    cell (the asymmetric branch on an almost symmetric input), structured sparse supports with
    far fewer connections than requested, a single connection, the empty matrix"""
    kind = rng.choice(["constant", "sym+loops", "almost-sym", "structured", "single", "empty"])
    n = rng.randint(3, 9)
    if kind == "constant":
        v = rng.choice([1, 2, 5])
        W = [[v if (i != j or rng.random() < 0.3) else 0 for j in range(n)] for i in range(n)]
    elif kind == "sym+loops":
        W = rand_matrix(rng, n, True, 0, 3, rng.choice([0.4, 0.9]))
        for i in range(n):
            W[i][i] = rng.choice([0, 7, 9])
    elif kind == "almost-sym":
        W = rand_matrix(rng, n, True, 1, 4, rng.choice([0.5, 1.0]))
        i, j = rng.sample(range(n), 2)
        W[i][j] += rng.choice([1, 2])
    elif kind == "structured":
        _, n, edges = rc.structured_support(rng, 4, 9)
        und = rng.random() < 0.6
        ws = rng.choice([[1, 2, 3], [2], [1, 5]])
        A = inputs.mat_from_edges(n, edges if und else rc.orient(rng, edges), und=und,
                                  w=[rng.choice(ws) for _ in range(2 * len(edges))])
        W = [[int(v) for v in row] for row in A]
    elif kind == "single":
        W = [[0] * n for _ in range(n)]
        i, j = rng.sample(range(n), 2)
        W[i][j] = rng.choice([1, 3])
        if rng.random() < 0.5:
            W[j][i] = W[i][j]
    else:
        W = [[0] * n for _ in range(n)]
    return kind, W


def build_jobs(ctx):
    rng = random.Random(ctx.seed)
    q = ctx.quick
    jobs = []
    P16 = list(range(17))
    # ---- threshold_proportional on the model matrices
    plan = [("dir2", None, True), ("sym3", None, True), ("dir3", None, not q),
            ("sym4", 1500 if q else None, not q), ("dir4", 600 if q else None, not q),
            ("sym5", 300 if q else None, False)]
    for tag, cap, both in plan:
        mats = model_matrices(ctx, tag)
        if cap:
            mats = inputs.sample(rng, mats, cap)
        for t, M in enumerate(mats):
            W, den = decorate(rng, M, rng.choice([0, 0, 1, 2]))
            for copy in ([1, 0] if both else [rng.randrange(2)]):
                jobs.append(dict(fn="threshold_proportional", src="model", W=W, den=den, pd=16,
                                 pks=P16, copy=copy))
    # a sample of them again as another argument dtype (den = 1) / memory layout / p typed as int
    for j in inputs.sample(rng, [j for j in jobs if j["den"] == 1], 350 if q else 4000):
        jobs.append(variant_for(rng, dict(j, src="model-variant", copy=rng.randrange(2)), 0.0))
    # ---- random larger: ties, zeros, symmetric or not, finer dyadic p; special matrices; symmetry,
    #      diagonal, denominator, copy flag, dtype, layout are independent draws
    for t in range(200 if q else 3000):
        if rng.random() < 0.3:
            kind, W = special_matrix(rng)
            W = [[abs(v) for v in row] for row in W]
            src = "special-" + kind
        else:
            n = rng.randint(5, 10)
            W = rand_matrix(rng, n, rng.random() < 0.5, 0, rng.choice([1, 3, 5]), rng.choice([0.2, 0.5, 0.9, 1.0]))
            for i in range(n):
                W[i][i] = rng.choice([0, 0, 2])
            src = "random"
        pd = rng.choice([16, 16, 64])
        pks = P16 if pd == 16 else sorted(set(rng.sample(range(65), 12)) | {0, 64})
        jobs.append(variant_for(rng, dict(fn="threshold_proportional", src=src, W=W, den=rng.choice([1, 1, 2, 4]),
                                          pd=pd, pks=pks, copy=rng.choice([1, 1, 0])), 0.4))
    # ---- elementwise utilities on signed matrices (model supports shifted, random, special)
    base = inputs.sample(rng, model_matrices(ctx, "dir3"), 250 if q else 1500)
    base += inputs.sample(rng, model_matrices(ctx, "sym4"), 150 if q else 800)
    signed = []
    for M in base:
        n = len(M)
        sh = rng.choice([0, 1, 2])
        W = [[(M[i][j] - sh) if (i != j or rng.random() < 0.5) else 0 for j in range(n)] for i in range(n)]
        signed.append((W, rng.choice([1, 1, 2, 4]), 0.75))
    for t in range(120 if q else 1000):
        n = rng.randint(2, 10)
        signed.append((rand_matrix(rng, n, rng.random() < 0.5, -6, 6, rng.choice([0.3, 0.8, 1.0])),
                       rng.choice([1, 2, 4]), 0.4))
    for t in range(60 if q else 600):
        kind, W = special_matrix(rng)
        if rng.random() < 0.4:                       # signs
            W = [[v * rng.choice([1, -1]) for v in row] for row in W]
        if kind != "empty" or rng.random() < 0.2:    # normalize of the empty matrix is 0/0
            signed.append((W, rng.choice([1, 1, 2]), 0.4))
    # one-node networks (a single self-connection) and two-node ones: the smallest in-domain matrices
    for v in (4, -2, 1, 3):
        signed.append(([[v]], rng.choice([1, 2]), 0.5))
    for _ in range(4):
        signed.append((rand_matrix(rng, 2, rng.random() < 0.5, -3, 3, 1.0), 1, 0.5))
    # the ends of the narrow integer types as entries: -128 / 127 (int8), -32768 (int16) - what a cast of
    # out-of-range or missing values leaves behind; |x| of the lowest value wraps around in its own type
    extreme = []
    for lo, hi, dt in ((-128, 127, "int8"), (-32768, 32767, "int16")):
        for _ in range(2):
            n = rng.randint(2, 5)
            W = [[rng.choice([0, 0, 1, -1, lo, hi, lo]) for _ in range(n)] for _ in range(n)]
            extreme.append((W, dt))
    for W, dt in extreme:
        for copy in (1, 0):
            for fn, kw in (("binarize", {}), ("weight_conversion", dict(wcm="binarize")),
                           ("threshold_absolute", dict(thr=0)), ("threshold_absolute", dict(thr=1))):
                if fn == "weight_conversion" and False:
                    continue
                jobs.append(dict(fn=fn, src="extreme-" + dt, W=W, den=1, copy=copy, dtype=dt, layout="C",
                                 ptype="int", **kw))
    for t, (W, den, p_plain) in enumerate(signed):
        for copy in ([1, 0] if not q else [rng.randrange(2)]):
            vals = sorted(set(v for row in W for v in row))
            # thresholds around and exactly ON the occurring values (an entry equal to thr is kept)
            thrs = {vals[0] - 1, vals[-1] + 1, vals[0], vals[-1], rng.choice(vals), rng.choice(vals), 0}
            if q:
                thrs = set(rng.sample(sorted(thrs), min(len(thrs), 5)))
            for thr in sorted(thrs):
                jobs.append(variant_for(rng, dict(fn="threshold_absolute", src="signed", W=W, den=den, thr=thr,
                                                  copy=copy), p_plain))
            for fn in ("binarize", "normalize", "invert"):
                jobs.append(variant_for(rng, dict(fn=fn, src="signed", W=W, den=den, copy=copy), p_plain))
            for wcm in ("binarize", "normalize", "lengths"):
                jobs.append(variant_for(rng, dict(fn="weight_conversion", src="signed", W=W, den=den, wcm=wcm,
                                                  copy=copy), p_plain))
    # ---- 0/1 matrices (also as boolean masks) through binarize / weight_conversion('binarize')
    for M in inputs.sample(rng, model_matrices(ctx, "dir4"), 60 if q else 600):
        copy = rng.randrange(2)
        jobs.append(variant_for(rng, dict(fn="binarize", src="binary", W=M, den=1, copy=copy), 0.0))
        jobs.append(variant_for(rng, dict(fn="weight_conversion", src="binary", W=M, den=1, wcm="binarize",
                                          copy=copy), 0.0))
    # ---- the rounding itself on the grid p = k/16, K <= 30 (and a finer grid)
    for K in range(31):
        jobs.append(dict(fn="teachers_round", src="grid", W=[[0]], K=K, pd=16, pks=P16))
        jobs.append(dict(fn="teachers_round", src="grid", W=[[0]], K=K, pd=64, pks=list(range(65))))
    return jobs


def what(job, rec, clause):
    s = "W=%s den=%s copy=%s dtype=%s layout=%s%s" % (
        rec.get("W"), rec.get("den"), rec.get("copy"), job.get("dtype", "float64"), job.get("layout", "C"),
        " p/thr typed int where integral" if job.get("ptype") == "int" else "")
    if rec.get("fn") == "threshold_proportional":
        s += " p=k/%d" % rec.get("pd", 0)
    if rec.get("fn") == "threshold_absolute":
        s += " thr=%s/%s" % (rec.get("thr"), rec.get("den"))
    if rec.get("wcm"):
        s += " wcm=" + rec["wcm"]
    return s


def bookkeeping(ctx, jobs, recs):
    """coverage counters only (no judgement): how many (W,p) cases had a proper cut, a tie
    at the cut, fewer present than requested, p*K exactly on .5"""
    proper, ties, sparse, half = set(), 0, 0, 0
    for r in recs:
        if r.get("timeout") or r["fn"] != "threshold_proportional" or r["raised"] or r["malformed"]:
            continue
        W = np.array(r["W"])
        n = r["n"]
        off = W[~np.eye(n, dtype=bool)]
        sym = bool((W == W.T).all())
        K = n * (n - 1) // (2 if sym else 1)
        present = int((off != 0).sum()) // (2 if sym else 1)
        for pk, out in zip(r["pks"], r["outs"]):
            O = np.array(out)
            kept = int((O != 0).sum()) // (2 if sym else 1)
            if (2 * pk * K) % (2 * r["pd"]) == r["pd"]:
                half += 1
            if pk * K > r["pd"] * present and present > 0:
                sparse += 1
            if 0 < kept < present:
                proper.add((str(r["W"]), pk, r["pd"]))
                kv = O[O != 0]
                dropped = off[(O[~np.eye(n, dtype=bool)] == 0) & (off != 0)]
                if len(kv) and len(dropped) and kv.min() == dropped.max():
                    ties += 1
    ctx.nontrivial = len(proper)
    # one threshold_proportional record holds one real call per listed p: count the calls, not the records
    ctx.evaluations += sum(len(r["pks"]) - 1 for r in recs
                           if not r.get("timeout") and r.get("fn", "").startswith("threshold_proportional")
                           and r.get("pks"))
    ctx.extra["proportional_cases_with_tie_at_cut"] = ties
    ctx.extra["proportional_cases_fewer_present_than_requested"] = sparse
    ctx.extra["proportional_cases_pK_exactly_on_half"] = half


def run(ctx):
    if ctx.quick:
        models = ["MC_Threshold_dir3.cfg", "MC_Threshold_sym4.cfg"]
    else:
        models = ["MC_Threshold_dir3_thorough.cfg", "MC_Threshold_sym4_thorough.cfg",
                  "MC_Threshold_sym5_thorough.cfg"]
    for cfg in models:
        ctx.mc("MC_Threshold.tla", cfg)
    jobs = build_jobs(ctx)
    frng = random.Random(ctx.seed * 17 + 5)
    for j in jobs:                       # the form of the copy flag: an independent draw per job
        if frng.random() < 0.4:
            j["copy_form"] = frng.choice(["np", "int", "zerod"])
    recs = [_fill(j, r) for j, r in zip(jobs, pool.run_jobs(__name__, jobs, strict_fp=True))]
    verdicts = ctx.validate(*TRACE, recs, chunk=3000 if ctx.quick else 8000)
    ctx.judge(jobs, rc.tag_failures(ctx, jobs, recs, verdicts), verdicts, what)
    ctx.extra["argument_variants"] = rc.variant_counts(jobs)
    bookkeeping(ctx, jobs, recs)
    ctx.exhaustive = True
    ctx.rule = ("threshold_proportional: every matrix with entries 0..3 on 2 and 3 nodes, every "
                "symmetric one on 3 and 4 nodes, every 0/1 matrix on 4 nodes and symmetric 0/1 on 5 "
                "(quick tier samples the three largest families) x every p = k/16 x copy flag, "
                "decorated with diagonals and denominators 1/2/4; seeded random n in 5..10 with "
                "p = k/16 or k/64 and special matrices (one value everywhere, symmetric with strong "
                "self-loops, symmetric except one cell, structured sparse supports, a single connection, "
                "empty). Elementwise utilities and weight_conversion: signed shifts of the "
                "model matrices, random signed matrices n <= 10 and the special matrices x copy flag x "
                "thresholds around and exactly on the occurring values; 0/1 matrices also as boolean "
                "masks through binarize. A sample of the model inputs and most others again as another "
                "argument dtype (int32/int64/float32/bool where the utility's domain allows; integer-typed "
                "arguments to normalize/invert only with copy=True), memory layout (Fortran, transposed, "
                "window, strided) and p/thr typed as int; all choices drawn from the seeded RNG. teachers_round on p = k/16, k/64, K <= 30. "
                "non-trivial = distinct (W, p) of threshold_proportional whose result keeps some but "
                "not all present connections")
    for j, r in zip(jobs, recs):
        if j["fn"] == "threshold_proportional" and r["n"] == 3 and r["copy"] == 0:
            ctx.add_sample("model-input", dict(job=j, record=r))
            break
    k = next(i for i, j in enumerate(jobs) if j["src"] == "signed")
    ctx.add_sample("signed-input", dict(job=jobs[k], record=recs[k]))
    ctx.assumptions += [
        "TLC evaluates the L0 definitions correctly",
        "weights are integers over a denominator 1, 2 or 4 (exact in floating point), |W| <= 100; "
        "p and thr are dyadic, so p x (number of possible connections) is exact and .5 cases are real",
        "outputs of normalize/invert are observed rounded to 10^-6 and judged by cross-multiplication",
        "arg_unchanged / result_is_arg are observed in Python (bitwise comparison, `is`); the clauses "
        "on them are in Trace_Threshold.tla",
    ]
    return ctx.finish()


def replay(ctx, rp):
    job = rp["job"]
    recs = [_fill(job, r) for r in pool.run_jobs(__name__, [job])]
    verdicts = ctx.validate(*TRACE, recs)
    core.log("replay verdict:", verdicts[0])
    ctx.judge([job], recs, verdicts, what)
    return ctx.finish()
