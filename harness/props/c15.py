"""C15 - k-core / s-core outputs are the maximal subnetworks meeting the degree bound.

mc:       spec/PeelImpl.tla (L2: the peeling loop of kcore_bu/kcore_bd/score_wu and the
          coreness loop of kcoreness_centrality_*) refines spec/KCore.tla (L0: CoreSet by
          subset enumeration, uniqueness asserted) for every undirected graph on N nodes,
          every digraph, every weighted graph with weights {0,1,2} x every bound on the grid;
          Nested, PeelOnce, set-based peeling = CoreSet.
run:      kcore_bu/kcore_bd/score_wu (peel=False and peel=True) for all consecutive k (a
          half-integer grid of s) and kcoreness_centrality_bu/_bd on every model graph
          (TLC-enumerated; weighted: every weighting of every support) and on seeded random
          larger graphs (n <= 10: G(n,p), trees with cliques, isolated nodes).
          Scale regimes: (a) near-threshold inputs of score_wu - two-level dyadic weights
          B*2^gap + E (E a few units, 1 ulp .. 1e-7 relative), bounds on / a hair beside an
          exact strength, the whole input scaled by 2^scale; everything exact in binary64 and
          judged lexicographically on integers (KCore.tla "two-level weights", equivalence with
          CoreSet model-checked by MC_KCoreLex); (b) large inputs (130..300 nodes: degrees,
          strengths, sizes, coreness and peel levels beyond 127 / 255).
validate: spec/Trace_KCore.tla judges every record.
"""
import itertools
import math
import random
from fractions import Fraction

import numpy as np

from .. import core, encode, inputs, pool
from . import rel_common as rc

KIND = {"kcore_bu": "bu", "kcore_bd": "bd", "score_wu": "wu",
        "kcoreness_centrality_bu": "bu", "kcoreness_centrality_bd": "bd"}
TRACE = ("Trace_KCore.tla", "Trace_KCore.cfg")


def _blank(job, A):
    return dict(fn=job["fn"], kind=KIND[job["fn"]], n=len(A), A=encode.mat_int(A),
                raised="", malformed="", b2s=list(job.get("b2s", [])), cores=[], sizes=[],
                pcores=[], psizes=[], orders=[], levels=[], coreness=[], kn=[])


def _fill(job, rec):
    """a timed-out call still needs every field for TLC (it is booked as inconclusive)"""
    if rec.get("timeout"):
        full = _blank(job, np.array(job["A"], dtype=float))
        full.update(rec)
        full["raised"] = "timeout"
        return full
    return rec


def arg_dtype(fn, dtype):
    """what routine `fn` may be handed for a drawn dtype (rel_common.admissible): kcore_bu/_bd and
    kcoreness_centrality_* are documented for binary networks (bool allowed), score_wu for weights;
    every output is structural (the input restricted to a node set, sizes, coreness levels) ->
    float32 allowed; none of them copies its argument to float before summing it -> no uint8"""
    return rc.admissible(dtype, binary=fn != "score_wu", structural=True)


def _bound(job, b2):
    """the bound as the caller types it: k as int / float / numpy integer, s as float or - when
    integral - as int (job['ktype'], drawn); the record keeps the doubled integer b2"""
    kt = job.get("ktype", "int")
    if job["fn"] == "score_wu":
        return b2 // 2 if (kt != "float" and b2 % 2 == 0) else b2 / 2.0
    if b2 % 2:                   # a fractional level (k + 1/2) can only be typed as a float
        return np.float64(b2 / 2.0) if kt == "np" else b2 / 2.0
    return {"int": int, "float": float, "np": np.int64}[kt](b2 // 2)


def _near_floats(job):
    """the float64 matrix and bounds of a near-threshold job; every value is an integer below 2^53
    times a power of two, i.e. exact (MachineryError otherwise: the harness would be at fault)"""
    gap, unit = job["gap"], job["scale"] - job["gap"]
    B, E = job["A"], job["E"]
    n = len(B)
    T = [[(B[i][j] << gap) + E[i][j] for j in range(n)] for i in range(n)]
    N2 = [(b2 << gap) + e2 for b2, e2 in zip(job["b2s"], job["e2s"])]
    top = max([sum(abs(T[i][j]) for i in range(n)) for j in range(n)] + [0])
    if top >= 2 ** 53 or any(abs(v) >= 2 ** 53 for v in N2):
        raise core.MachineryError("near-threshold input is not exact in binary64")
    W = np.array([[math.ldexp(T[i][j], unit) for j in range(n)] for i in range(n)], dtype=float).reshape(n, n)
    ss = [math.ldexp(v, unit - 1) for v in N2]
    if any(Fraction(float(W[i, j])) != Fraction(T[i][j]) * Fraction(2) ** unit for i in range(n) for j in range(n)) \
            or any(Fraction(x) != Fraction(v) * Fraction(2) ** (unit - 1) for x, v in zip(ss, N2)) \
            or any(Fraction(float(W[:, j].sum())) != sum(T[i][j] for i in range(n)) * Fraction(2) ** unit
                   for j in range(n)):
        raise core.MachineryError("near-threshold input is not exact in binary64")
    return W, ss


def _split2(x, gap, unit):
    """an output entry as the integer pair (a, e) with x = (a*2^gap + e) * 2^unit, |e| <= 2^(gap-1)
    - lossless; ValueError when x is no multiple of the unit or e / a do not fit (such an entry
    is neither an input entry nor 0)"""
    x = float(x)
    if x == 0.0:
        return 0, 0
    if not math.isfinite(x):
        raise ValueError("not finite: %r" % x)
    fr = Fraction(x) / Fraction(2) ** unit
    if fr.denominator != 1:
        raise ValueError("not a multiple of the weight unit: %r" % x)
    t = fr.numerator
    a = (t + (1 << (gap - 1))) >> gap
    e = t - (a << gap)
    if abs(e) >= 10 ** 8 or abs(a) >= encode.INF:
        raise ValueError("not a two-level weight: %r" % x)
    return a, e


def exec_near(job):
    """score_wu on a near-threshold input (record kind 'wux', Trace_KCore!JudgeCoreX)"""
    import bct
    n = len(job["A"])
    rec = dict(fn="score_wu", kind="wux", n=n, A=job["A"], E=job["E"], gap=job["gap"],
               raised="", malformed="", b2s=list(job["b2s"]), e2s=list(job["e2s"]),
               cores=[], coresE=[], sizes=[])
    W, ss = _near_floats(job)
    try:
        outs = []
        for x in ss:
            bound = np.float64(x) if job.get("ktype") == "np" else x
            outs.append(bct.score_wu(rc.as_variant(W, "float64", job.get("layout", "C")), bound))
    except Exception as e:
        rec["raised"] = encode.exc_name(e)
        return rec
    try:
        unit = job["scale"] - job["gap"]
        for o in outs:
            M = np.asarray(o[0])
            if M.ndim != 2:
                raise ValueError("not a matrix")
            pairs = [[_split2(v, job["gap"], unit) for v in row] for row in M]
            rec["cores"].append([[p[0] for p in row] for row in pairs])
            rec["coresE"].append([[p[1] for p in row] for row in pairs])
            rec["sizes"].append(encode.e_int(o[1]))
    except ValueError as e:
        rec["malformed"] = str(e)
    return rec


def exec_job(job):
    import bct
    if job.get("near"):
        return exec_near(job)
    A0 = np.array(job["A"], dtype=float)
    rec = _blank(job, A0)
    fn = getattr(bct, job["fn"])

    def mk():       # a fresh argument array per call: same values, drawn dtype / memory layout
        return rc.as_variant(A0, job.get("dtype", "float64"), job.get("layout", "C"))
    mk()
    if job["fn"].startswith("kcoreness"):
        try:
            coreness, kn = fn(mk())
        except Exception as e:
            rec["raised"] = encode.exc_name(e)
            return rec
        try:
            rec["coreness"] = encode.vec_int(coreness)
            rec["kn"] = encode.vec_int(kn)
        except ValueError as e:
            rec["malformed"] = str(e)
        return rec
    try:
        outs, pouts = [], []
        for b2 in job["b2s"]:
            bound = _bound(job, b2)
            outs.append(fn(mk(), bound))
            if job["fn"] != "score_wu":
                pouts.append(fn(mk(), bound, peel=True))
    except Exception as e:
        rec["raised"] = encode.exc_name(e)
        return rec
    try:
        rec["cores"] = [encode.mat_int(o[0]) for o in outs]
        rec["sizes"] = [encode.e_int(o[1]) for o in outs]
        for o in pouts:
            rec["pcores"].append(encode.mat_int(o[0]))
            rec["psizes"].append(encode.e_int(o[1]))
            order = np.concatenate([np.asarray(x).ravel() for x in o[2]]) if len(o[2]) else []
            level = np.concatenate([np.asarray(x).ravel() for x in o[3]]) if len(o[3]) else []
            rec["orders"].append([encode.e_int(v) + 1 for v in order])
            rec["levels"].append([encode.e_int(v) for v in level])
    except ValueError as e:
        rec["malformed"] = str(e)
    return rec


# ------------------------------------------------------------------ inputs
def k_bounds(n, kind):
    top = 2 * (n - 1) if kind == "bd" else n - 1
    # doubled levels: the integers k = 0 .. top + 1 and, for graphs of up to 12 nodes, the half-integers
    # between them ("every node keeps degree at least k" is meaningful for any real k, e.g. a mean degree)
    ks = [2 * k for k in range(0, max(top, 0) + 2)]
    if n <= 12:
        ks = sorted(set(ks) | set(2 * k + 1 for k in range(0, max(top, 0) + 1)))
    return ks


def s_bounds_full(A):
    """every half-integer s from 0 to one half past the largest strength (doubled)"""
    return list(range(0, 2 * int(A.sum(axis=0).max(initial=0)) + 2))


def s_bounds_sparse(rng, A):
    """0, the exact strengths, the half-integers next to them, a few others (doubled)"""
    st = sorted(set(int(v) for v in A.sum(axis=0)))
    top = 2 * (st[-1] if st else 0) + 1
    b = {0, 1, top}
    for v in st:
        b.update([2 * v - 1, 2 * v, 2 * v + 1])
    for _ in range(6):
        b.add(rng.randint(0, top))
    return sorted(x for x in b if 0 <= x <= top)


def tree_with_cliques(rng, n, und):
    """random tree (deep peeling: many rounds) with a clique glued in and isolated nodes"""
    A = np.zeros((n, n))
    order = list(range(n))
    rng.shuffle(order)
    m = rng.randint(max(2, n - 3), n)          # nodes beyond m stay isolated
    for idx in range(1, m):
        u, v = order[idx], order[rng.randrange(idx)]
        A[u, v] = 1
        if und or rng.random() < 0.5:
            A[v, u] = 1
    q = rng.sample(order[:m], min(m, rng.randint(3, 5)))
    for u in q:
        for v in q:
            if u != v and (und or rng.random() < 0.8):
                A[u, v] = 1
                if und:
                    A[v, u] = 1
    return A


def structured(rng, kind):
    """(und?, matrix) on a structured support: caterpillars (long chains: as many peeling rounds as
    the spine is long), rings of cliques (the k-core is exactly the cliques up to k = m-1, then
    nothing), paths / cycles / stars / complete / complete bipartite graphs (core = all or
    nothing at the boundary k = degree), equal / unequal components, isolated nodes"""
    name, n, edges = rc.structured_support(rng, 5, 10)
    und = kind != "bd"
    if not und:
        edges = rc.orient(rng, edges) if rng.random() < 0.7 else [e for (i, j) in edges for e in ((i, j), (j, i))]
    w = None
    if kind == "wu":
        ws = rng.choice([[1, 2, 3, 4, 5], [1, 2], [2], [1], [3]])         # single value: all strengths tie
        w = [rng.choice(ws) for _ in edges]
    return name, inputs.mat_from_edges(n, edges, und=und, w=w)


def job_of(rng, fn, src, A, b2s=None, p_plain=1.0):
    """p_plain < 1: draw the argument dtype / layout and how the bound is typed"""
    j = dict(fn=fn, src=src, A=A.tolist() if hasattr(A, "tolist") else A)
    if b2s is not None:
        j["b2s"] = b2s
    if p_plain < 1.0:
        fam = rc.DT_COUNT if fn == "score_wu" else rc.DT_BIN
        dt, lay = rc.draw_variant(rng, fam, p_plain)
        j.update(dtype=arg_dtype(fn, dt), layout=lay, ktype=rng.choice(["int", "int", "float", "np"]))
    return j


# ---- scale regime (a): near-threshold inputs of score_wu
def near_job(rng, src="near"):
    """two-level weights on a small support: base weights B from a tie-rich set, a perturbation E
    of a few units on some connections (both signs), now and then a connection that consists of
    a perturbation only; unit of E = 2^-gap base units with gap from the largest that keeps every
    sum exact (the bound next to the largest strength is then exactly 1 ulp away) down to 21
    (5e-7 relative); the whole input times 2^scale.  Bounds: for the strengths inside the whole
    graph and inside the sets left by peeling, the exact value, a few units beside it on both
    sides, the base value and the half base units around it."""
    shape = rng.choice(["gnp", "gnp", "tree+cliques", "structured", "structured"])
    if shape == "gnp":
        n = rng.randint(4, 9)
        S = inputs.rand_graph(rng, n, rng.choice([0.3, 0.5, 0.7, 0.9]), und=True)
    elif shape == "structured":
        _, n, edges = rc.structured_support(rng, 4, 9)
        S = inputs.mat_from_edges(n, edges, und=True)
    else:
        n = rng.randint(5, 9)
        S = tree_with_cliques(rng, n, True)
    ws = rng.choice([[1], [1], [2], [3], [1, 2], [1, 2, 3, 4], [2, 4], [5, 7]])
    pe = rng.choice([0.0, 0.3, 0.6, 1.0])
    emax = rng.choice([1, 1, 2, 3, 3, 40])
    B = [[0] * n for _ in range(n)]
    E = [[0] * n for _ in range(n)]
    for i in range(n):
        for j in range(i + 1, n):
            if S[i, j]:
                B[i][j] = B[j][i] = rng.choice(ws)
                if rng.random() < pe:
                    E[i][j] = E[j][i] = rng.choice([-1, 1]) * rng.randint(1, emax)
            elif rng.random() < 0.06:                      # a connection far below every other
                E[i][j] = E[j][i] = rng.randint(1, emax)
    colB = max(max(sum(B[i][j] for i in range(n)) for j in range(n)), 1)
    gapmax = 52 - colB.bit_length()
    gap = min(gapmax, rng.choice([gapmax, gapmax, gapmax - 1, 44, 40, 37, 34, 30, 27, 24, 21]))
    scale = rng.choice([0, 0, 0, 0, 1, -3, 8, -20, 33, -60, 60, -300, 300])

    # bounds next to the strengths met while peeling (input choice only: the verdict is TLC's)
    cand, alive = set(), set(range(n))
    while alive:
        st = {v: (sum(B[u][v] for u in alive), sum(E[u][v] for u in alive)) for v in alive}
        cand.update(st.values())
        low = min(st.values())
        alive -= {v for v in alive if st[v] == low}
    cand.discard((0, 0))
    cand = sorted(cand)
    if len(cand) > 4:
        cand = sorted(rng.sample(cand, 4))
    bounds = {(0, 0)}
    for (a, e) in cand:
        for d in (-2, -1, 0, 1, 2, rng.randint(3, 60), -rng.randint(3, 60)):
            bounds.add((2 * a, 2 * e + d))
        bounds.update([(2 * a, 0), (2 * a - 1, 0), (2 * a + 1, 0)])
    bounds = sorted(b for b in bounds if (0, 0) <= b and b[0] <= 2 * colB + 1)
    if len(bounds) > 16:
        bounds = sorted(rng.sample(bounds, 16))
    return dict(fn="score_wu", near=True, src=src, A=B, E=E, gap=gap, scale=scale,
                b2s=[b[0] for b in bounds], e2s=[b[1] for b in bounds],
                layout=rng.choice(["C", "C", "F", "T", "slice", "stride"]),
                ktype=rng.choice(["float", "float", "np"]))


# ---- scale regime (b): large inputs
def _around(vals, top):
    """bounds (plain, not doubled) next to the smallest, a middle and the largest of `vals`"""
    v = sorted(vals)
    picks = {0, 1, 2, v[0] - 1, v[0], v[0] + 1, v[len(v) // 4], v[len(v) // 2], v[len(v) // 2] + 1,
             v[(3 * len(v)) // 4], v[-1], v[-1] + 1}
    picks.update(v[0] + (q * (v[-1] - v[0])) // 6 for q in range(1, 6))
    return sorted(k for k in picks if 0 <= k <= top)


def big_jobs(rng, quick):
    """130..300 nodes: degrees / strengths, core sizes, coreness values, peel rounds beyond 127 and
    255 (where 8-bit counters wrap), judged by the same clauses (oracle: the set-based peeling)"""
    jobs = []

    def shuffled(A):
        p = list(range(len(A)))
        rng.shuffle(p)
        return np.asarray(A)[np.ix_(p, p)]

    def planted(n, p_in, p_out, und, wmax=1):
        c = (3 * n) // 4
        A = np.zeros((n, n))
        for i in range(n):
            for j in range(i + 1 if und else 0, n):
                if i != j and rng.random() < (p_in if (i < c and j < c) else p_out):
                    A[i, j] = rng.randint(1, wmax)
                    if und:
                        A[j, i] = A[i, j]
        return shuffled(A)

    def add(fn, src, A, b2s=None):
        if quick and b2s is not None and len(b2s) > 6:       # quick tier: six of the bounds
            b2s = sorted(rng.sample(b2s, 6))
        jobs.append(job_of(rng, fn, src, A, b2s, p_plain=0.5))

    for rep in range(1 if quick else 3):
        # a clique of m > 127 nodes with a path attached and isolated nodes: the (m-1)-core is the
        # clique, its size and the coreness of its members exceed 127
        # (thorough tier, once: beyond 255)
        for m in [rng.randint(129, 136)] + ([rng.randint(257, 262)] if not quick and rep == 0 else []):
            tail, iso = rng.randint(2, 4), rng.randint(0, 2)
            n = m + tail + iso
            A = np.zeros((n, n))
            A[:m, :m] = 1 - np.eye(m)
            for t in range(tail):
                u, v = (m - 1 if t == 0 else m + t - 1), m + t
                A[u, v] = A[v, u] = 1
            A = shuffled(A)
            add("kcore_bu", "big-clique+path", A, [2 * k for k in (1, 2, 3, m - 2, m - 1, m)])
            add("kcoreness_centrality_bu", "big-clique+path", A)
        # dense G(n,p): degrees straddle 127 (n about 140) / in+out degrees straddle 127 and 255
        # (a dense block and a sparser periphery, so that the cores do not collapse all at once)
        n = rng.randint(140, 156)
        A = planted(n, 0.96, 0.55, True)
        if not quick:
            add("kcore_bu", "big-dense", A, [2 * k for k in _around(A.sum(axis=0).astype(int).tolist(), n)])
        for n in [rng.randint(88, 96), rng.randint(160, 176)]:
            A = planted(n, 0.97, 0.6, False)
            deg = (A.sum(axis=0) + A.sum(axis=1)).astype(int).tolist()
            if n > 100 or not quick:
                add("kcore_bd", "big-dense", A, [2 * k for k in _around(deg, 2 * n)])
            if n < 100 or not quick:
                add("kcoreness_centrality_bd", "big-dense", A)
        # a long path with a triangle at one end: peeled from the free end, > 127 rounds for k = 2
        n = rng.randint(133, 140)
        A = np.zeros((n, n))
        for i in range(n - 1):
            A[i, i + 1] = A[i + 1, i] = 1
        for i in range(3):
            for j in range(i):
                A[i, j] = A[j, i] = 1
        if not quick:
            add("kcore_bu", "big-path", shuffled(A), [2, 4, 6])
        # dense weighted: strengths beyond 255, core sizes beyond 127
        n = rng.randint(130, 144)
        A = planted(n, 0.9, 0.5, True, wmax=3)
        st = A.sum(axis=0).astype(int).tolist()
        v = sorted(st)
        add("score_wu", "big-dense", A,
            sorted({1, 2 * v[0] - 1, 2 * v[0], 2 * v[0] + 1, 2 * v[len(v) // 4], 2 * v[len(v) // 2],
                    2 * v[len(v) // 2] + 1, 2 * v[(3 * len(v)) // 4], 2 * v[-1], 2 * v[-1] + 1}
                   | {2 * v[0] + (q * (v[-1] - v[0])) // 3 for q in range(1, 6)}))
    return jobs


def build_jobs(ctx):
    rng = random.Random(ctx.seed)
    jobs = []
    # ---- model inputs: every undirected graph, every digraph
    for n in ([3, 4, 5] if ctx.quick else [3, 4, 5, 6]):
        graphs = inputs.model_graphs(ctx, "und", n)
        if n == 6:
            graphs = inputs.sample(rng, graphs, 6000)
        for edges in graphs:
            A = inputs.mat_from_edges(n, edges, und=True).tolist()
            jobs.append(dict(fn="kcore_bu", src="model", A=A, b2s=k_bounds(n, "bu")))
            jobs.append(dict(fn="kcoreness_centrality_bu", src="model", A=A))
    for n in [3, 4]:
        graphs = inputs.model_graphs(ctx, "dir", n)
        if n == 4 and ctx.quick:
            graphs = inputs.sample(rng, graphs, 1200)
        for edges in graphs:
            A = inputs.mat_from_edges(n, edges, und=False).tolist()
            jobs.append(dict(fn="kcore_bd", src="model", A=A, b2s=k_bounds(n, "bd")))
            jobs.append(dict(fn="kcoreness_centrality_bd", src="model", A=A))
    # ---- weighted: every weighting {1,2} of every support, full half-integer grid of s
    for n in [3, 4, 5]:
        graphs = inputs.model_graphs(ctx, "und", n)
        if n == 5:
            graphs = inputs.sample(rng, graphs, 60 if ctx.quick else 400)
        for edges in graphs:
            ws = list(itertools.product([1, 2], repeat=len(edges)))
            if n == 5:
                ws = inputs.sample(rng, ws, 12)
            for w in ws:
                A = inputs.mat_from_edges(n, edges, und=True, w=list(w))
                jobs.append(dict(fn="score_wu", src="model", A=A.tolist(), b2s=s_bounds_full(A)))
    # ---- a sample of the model inputs again as another argument dtype (bool/int32/int64/float32
    #      for the binary routines, int32/int64/float32 for score_wu), memory layout, bound type
    for j in inputs.sample(rng, jobs, 500 if ctx.quick else 5000):
        jobs.append(job_of(rng, j["fn"], "model-variant", j["A"], j.get("b2s"), p_plain=0.0))
    # ---- random larger graphs; routine, shape, density, dtype, layout, bound type independent draws
    nrand = 240 if ctx.quick else 3000
    for t in range(nrand):
        n = rng.randint(6, 10)
        kind = rng.choice(["bu", "bd", "wu"])
        und = kind != "bd"
        shape = rng.choice(["gnp", "gnp", "tree+cliques", "tree+cliques", "structured"])
        src = "random"
        if shape == "gnp":
            A = inputs.rand_graph(rng, n, rng.choice([0.15, 0.3, 0.5, 0.7]), und=und,
                                  wmax=5 if kind == "wu" else 1)
        elif shape == "structured":
            name, A = structured(rng, kind)
            n, src = len(A), "struct-" + name
        else:
            A = tree_with_cliques(rng, n, und)
            if kind == "wu":
                W = np.triu(np.vectorize(lambda x: rng.randint(1, 5))(A) * A, 1)
                A = W + W.T
        if kind == "wu":
            jobs.append(job_of(rng, "score_wu", src, A, s_bounds_sparse(rng, A), p_plain=0.4))
        else:
            jobs.append(job_of(rng, "kcore_" + kind, src, A, k_bounds(n, kind), p_plain=0.4))
            jobs.append(job_of(rng, "kcoreness_centrality_" + kind, src, A, p_plain=0.4))
    # ---- mid-size random graphs (seed round 7), 14..40 nodes, density 0.05..0.6, every level k: the peeling
    #      runs over many rounds there - a first wave of one or two nodes followed by a cascade - which graphs
    #      on <= 10 nodes cannot show (no graph on <= 6 nodes needs more than two rounds at k >= 3)
    rng4 = random.Random("%s/C15-mid" % ctx.seed)
    for t in range(50 if ctx.quick else 600):
        n = rng4.randint(14, 40)
        kind = rng4.choice(["bu", "bu", "bd"])
        A = inputs.rand_graph(rng4, n, rng4.choice([0.05, 0.1, 0.2, 0.3, 0.45, 0.6]), und=(kind == "bu"), wmax=1)
        jobs.append(job_of(rng4, "kcore_" + kind, "random-mid", A, k_bounds(n, kind), p_plain=0.5))
        jobs.append(job_of(rng4, "kcoreness_centrality_" + kind, "random-mid", A, p_plain=0.5))
    # ---- composites, 9..18 nodes: a high-degree / low-coreness part (star, caterpillar, double star)
    #      joined by a bridge or a short path to a low-degree / high-coreness part (clique, complete
    #      bipartite block, ring of cliques) - degree and coreness orders disagree, the deepest core
    #      does not contain the highest-degree node (random graphs on <= 10 nodes hardly ever do that)
    rng3 = random.Random("%s/C15-composite" % ctx.seed)
    for t in range(45 if ctx.quick else 600):
        hubs = rng3.randint(1, 2)
        leaves = [rng3.randint(3, 7) for _ in range(hubs)]
        edges, nxt = [], hubs
        for h in range(hubs):
            if h:
                edges.append((h - 1, h))
            for _ in range(leaves[h]):
                edges.append((h, nxt))
                nxt += 1
        core = rng3.choice(["clique", "clique", "bipartite", "cliquering"])
        base = nxt
        if core == "clique":
            m = rng3.randint(3, 6)
            cedges = rc.s_complete(m)
        elif core == "bipartite":
            a = rng3.randint(2, 3)
            m = 2 * a
            cedges = rc.s_bipartite(a, a)
        else:
            m = 6
            cedges = rc.s_clique_ring(2, 3)
        edges += [(base + i, base + j) for i, j in cedges]
        link = rng3.randint(0, 2)               # bridge, or a path of 1..2 extra nodes
        chain = [rng3.randrange(hubs)] + [base + m + x for x in range(link)] + [base + rng3.randrange(m)]
        edges += list(zip(chain[:-1], chain[1:]))
        n = base + m + link
        lab = list(range(n))
        rng3.shuffle(lab)
        edges = sorted(set((min(lab[a], lab[b]), max(lab[a], lab[b])) for a, b in edges))
        kind = rng3.choice(["bu", "bu", "bd", "wu"])
        if kind == "bd":
            A = inputs.mat_from_edges(n, rc.orient(rng3, edges), und=False)
        elif kind == "wu":
            A = inputs.mat_from_edges(n, edges, und=True, w=[rng3.randint(1, 3) for _ in edges])
        else:
            A = inputs.mat_from_edges(n, edges, und=True)
        if kind == "wu":
            jobs.append(job_of(rng3, "score_wu", "composite", A, s_bounds_sparse(rng3, A), p_plain=0.5))
        else:
            jobs.append(job_of(rng3, "kcore_" + kind, "composite", A, k_bounds(n, kind), p_plain=0.5))
            jobs.append(job_of(rng3, "kcoreness_centrality_" + kind, "composite", A, p_plain=0.5))
    # ---- scale regimes (own generator: the draws above stay what they were)
    rng2 = random.Random("%s/C15-scale" % ctx.seed)
    for t in range(160 if ctx.quick else 4000):
        jobs.append(near_job(rng2))
    jobs += big_jobs(rng2, ctx.quick)
    return jobs


def what(job, rec, clause):
    if job.get("near"):
        return ("near-threshold: weight = (A*2^%d + E) * 2^%d, bound = (b2*2^%d + e2) * 2^%d; layout=%s src=%s "
                "A=%s E=%s b2s=%s e2s=%s" % (job["gap"], job["scale"] - job["gap"], job["gap"],
                                             job["scale"] - job["gap"] - 1, job.get("layout"), job.get("src"),
                                             job["A"], job["E"], job["b2s"], job["e2s"]))
    return "n=%d dtype=%s layout=%s ktype=%s src=%s A=%s" % (
        rec.get("n", -1), job.get("dtype", "float64"), job.get("layout", "C"), job.get("ktype", "int"),
        job.get("src"), rec.get("A") if rec.get("n", 0) <= 20 else "(in the replay file) bounds x2=%s" % rec.get("b2s"))


def run(ctx):
    if ctx.quick:
        models = ["MC_KCore_bu.cfg", "MC_KCore_bd.cfg", "MC_KCore_wu.cfg"]
    else:
        models = ["MC_KCore_bu_thorough.cfg", "MC_KCore_bd_thorough.cfg", "MC_KCore_wu_thorough.cfg",
                  "MC_KCore_wu_n5.cfg"]
    # the equivalence proof for the two-level definitions runs beside the peeling models
    lex = ["MC_KCoreLex.cfg"] if ctx.quick else ["MC_KCoreLex_n3e2.cfg", "MC_KCoreLex_thorough.cfg"]
    ctx.parallel([lambda: [ctx.mc("MC_KCore.tla", cfg) for cfg in models],
                  lambda: [ctx.mc("MC_KCoreLex.tla", cfg, workers=6) for cfg in lex]], width=2)
    jobs = build_jobs(ctx)
    # the peeling loops are `while True`: probe a spread of jobs first so that a tree on which
    # they do not terminate costs seconds, not (number of jobs x time-out)
    probe = jobs[::max(1, len(jobs) // 160)]
    hung = sum(1 for r in pool.run_jobs(__name__, probe, limit=6.0) if r.get("timeout"))
    if hung > 0.05 * len(probe):
        raise core.MachineryError("%d of %d probe calls did not return within 6 s" % (hung, len(probe)))
    recs = [_fill(j, r) for j, r in zip(jobs, pool.run_jobs(__name__, jobs, limit=10.0, reuse=True, abort=True, strict_fp=True))]
    # the few large records are judged beside the many small ones
    big = [k for k, j in enumerate(jobs) if j["src"].startswith("big-")]
    small = [k for k, j in enumerate(jobs) if not j["src"].startswith("big-")]
    parts = ctx.parallel([lambda: ctx.validate(*TRACE, [recs[k] for k in small], chunk=3000),
                          lambda: ctx.validate(*TRACE, [recs[k] for k in big], tag="Trace_KCore_big")], width=2)
    verdicts = [None] * len(jobs)
    for ks, vs in zip((small, big), parts):
        for k, v in zip(ks, vs):
            verdicts[k] = v
    ctx.judge(jobs, rc.tag_failures(ctx, jobs, recs, verdicts), verdicts, what)
    ctx.extra["argument_variants"] = rc.variant_counts(jobs)
    # non-trivial: distinct (fn, input) where for some bound > 0 the core is non-empty and
    # smaller than the set of non-isolated nodes (something was peeled, something stayed)
    seen = set()
    for r in recs:
        if r.get("timeout") or r["raised"] or not r["sizes"]:
            continue
        A = np.array(r["A"])
        noniso = int(((A.sum(axis=0) + A.sum(axis=1)) > 0).sum())
        if any(b > 0 and 0 < s < noniso for b, s in zip(r["b2s"], r["sizes"])):
            seen.add((r["fn"], str(r["A"])))
    ctx.nontrivial = len(seen)
    ctx.exhaustive = True
    ctx.rule = ("every undirected graph on %s nodes x every k; every digraph on 3 nodes and %s on 4 "
                "x every k up to 2(n-1)+1; every {1,2}-weighting of every support on 3..4 nodes "
                "(sampled on 5) x every half-integer s up to past the largest strength; seeded "
                "random graphs n in 6..10 (G(n,p), trees with cliques and isolated nodes, structured "
                "supports: caterpillars, rings of cliques, paths, cycles, stars, complete (bipartite), equal/"
                "unequal components; single-value weight sets); a sample of the model inputs and most random "
                "ones as another argument dtype (bool/int32/int64/float32 where the routine's domain allows), "
                "memory layout (Fortran, transposed, window, strided) and bound type (int, float, numpy "
                "integer), all drawn from the seeded RNG; scale regimes: %d near-threshold inputs of score_wu "
                "(n in 4..9, two-level dyadic weights B*2^gap+E with gap 21..50, i.e. perturbations and bounds "
                "1 ulp .. 5e-7 relative beside exact strengths on both sides, whole input times 2^-300..2^300, "
                "exact in binary64, judged lexicographically on integers) and %d large inputs (clique of 129..136 "
                "nodes + path: kcore_bu and coreness; dense block + periphery digraphs on 160..176 nodes with "
                "in+out degrees across 255, on 88..96 nodes for the coreness; dense weighted graphs on 130..144 "
                "nodes with strengths beyond 255; thorough also undirected dense 140..156, a path peeled in > 127 "
                "rounds, a clique of 257..262 nodes), six bounds each in the quick tier. "
                "non-trivial = distinct (function, input) for which some bound > 0 leaves a core "
                "that is neither empty nor all non-isolated nodes"
                % ((("3..5", "a sample of 1200") if ctx.quick else ("3..5 (sample of 6000 on 6)", "every one"))
                   + (sum(1 for j in jobs if j.get("near")), len(big))))
    for j, r in zip(jobs, recs):
        if j["src"] == "model" and j["fn"] == "kcore_bu" and len(r["A"]) == 4 and any(r["sizes"][1:]):
            ctx.add_sample("model-input", dict(job=j, record=r))
            break
    k = max(k for k, j in enumerate(jobs) if j["src"] != "near")
    ctx.add_sample("random-input", dict(job=jobs[k], record=recs[k]))
    ctx.add_sample("near-threshold-input", dict(job=jobs[-1], record=recs[-1]))
    ctx.assumptions += [
        "TLC evaluates the L0 definitions correctly",
        "inputs have an empty diagonal, 0/1 entries (kcore) or small non-negative integer weights "
        "(score_wu); s is a multiple of 1/2, so every comparison strength < s is exact in floats",
        "near-threshold inputs: weights, bounds and every sum of weights are integers below 2^53 times one "
        "power of two (checked per input), so the code's own sums carry no round-off and the exact verdict "
        "'strength < s' is the lexicographic one TLC computes (MC_KCoreLex: equal to the L0 definition on the "
        "materialised weights for every small instance)",
        "for n > 5 the oracle is the set-based peeling operator, proved equal to the subset "
        "enumeration by MC_KCore on all model inputs",
        "the size returned for bound 0 (documented as the number of non-isolated nodes) is not judged",
    ]
    return ctx.finish()


def replay(ctx, rp):
    job = rp["job"]
    recs = [_fill(job, r) for r in pool.run_jobs(__name__, [job])]
    verdicts = ctx.validate(*TRACE, recs)
    core.log("replay verdict:", verdicts[0])
    ctx.judge([job], recs, verdicts, what)
    return ctx.finish()
