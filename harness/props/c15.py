"""C15 - k-core / s-core outputs are the maximal subnetworks meeting the degree bound.

mc:       spec/PeelImpl.tla (L2: the peeling loop of kcore_bu/kcore_bd/score_wu and the
          coreness loop of kcoreness_centrality_*) refines spec/KCore.tla (L0: CoreSet by
          subset enumeration, uniqueness asserted) for every undirected graph on N nodes,
          every digraph, every weighted graph with weights {0,1,2} x every bound on the grid;
          Nested, PeelOnce, set-based peeling = CoreSet.
run:      kcore_bu/kcore_bd/score_wu (peel=False and peel=True) for all consecutive k (a
          half-integer grid of s) and kcoreness_centrality_bu/_bd on every model graph
          (TLC-enumerated; weighted: every weighting of every support) and on seeded random
          larger graphs (n <= 10: G(n,p), trees with cliques, isolated nodes).
validate: spec/Trace_KCore.tla judges every record.
"""
import itertools
import random

import numpy as np

from .. import core, encode, inputs, pool
from . import rel_common as rc

KIND = {"kcore_bu": "bu", "kcore_bd": "bd", "score_wu": "wu",
        "kcoreness_centrality_bu": "bu", "kcoreness_centrality_bd": "bd"}
TRACE = ("Trace_KCore.tla", "Trace_KCore.cfg")


def _blank(job, A):
    return dict(fn=job["fn"], kind=KIND[job["fn"]], n=len(A), A=encode.mat_int(A),
                raised="", malformed="", b2s=list(job.get("b2s", [])), cores=[], sizes=[],
                pcores=[], psizes=[], orders=[], levels=[], coreness=[], kn=[])


def _fill(job, rec):
    """a timed-out call still needs every field for TLC (it is booked as inconclusive)"""
    if rec.get("timeout"):
        full = _blank(job, np.array(job["A"], dtype=float))
        full.update(rec)
        full["raised"] = "timeout"
        return full
    return rec


def arg_dtype(fn, dtype):
    """what routine `fn` may be handed for a drawn dtype (rel_common.admissible): kcore_bu/_bd and
    kcoreness_centrality_* are documented for binary networks (bool allowed), score_wu for weights;
    every output is structural (the input restricted to a node set, sizes, coreness levels) ->
    float32 allowed; none of them copies its argument to float before summing it -> no uint8"""
    return rc.admissible(dtype, binary=fn != "score_wu", structural=True)


def _bound(job, b2):
    """the bound as the caller types it: k as int / float / numpy integer, s as float or - when
    integral - as int (job['ktype'], drawn); the record keeps the doubled integer b2"""
    kt = job.get("ktype", "int")
    if job["fn"] == "score_wu":
        return b2 // 2 if (kt != "float" and b2 % 2 == 0) else b2 / 2.0
    return {"int": int, "float": float, "np": np.int64}[kt](b2 // 2)


def exec_job(job):
    import bct
    A0 = np.array(job["A"], dtype=float)
    rec = _blank(job, A0)
    fn = getattr(bct, job["fn"])

    def mk():       # a fresh argument array per call: same values, drawn dtype / memory layout
        return rc.as_variant(A0, job.get("dtype", "float64"), job.get("layout", "C"))
    mk()
    if job["fn"].startswith("kcoreness"):
        try:
            coreness, kn = fn(mk())
        except Exception as e:
            rec["raised"] = encode.exc_name(e)
            return rec
        try:
            rec["coreness"] = encode.vec_int(coreness)
            rec["kn"] = encode.vec_int(kn)
        except ValueError as e:
            rec["malformed"] = str(e)
        return rec
    try:
        outs, pouts = [], []
        for b2 in job["b2s"]:
            bound = _bound(job, b2)
            outs.append(fn(mk(), bound))
            if job["fn"] != "score_wu":
                pouts.append(fn(mk(), bound, peel=True))
    except Exception as e:
        rec["raised"] = encode.exc_name(e)
        return rec
    try:
        rec["cores"] = [encode.mat_int(o[0]) for o in outs]
        rec["sizes"] = [encode.e_int(o[1]) for o in outs]
        for o in pouts:
            rec["pcores"].append(encode.mat_int(o[0]))
            rec["psizes"].append(encode.e_int(o[1]))
            order = np.concatenate([np.asarray(x).ravel() for x in o[2]]) if len(o[2]) else []
            level = np.concatenate([np.asarray(x).ravel() for x in o[3]]) if len(o[3]) else []
            rec["orders"].append([encode.e_int(v) + 1 for v in order])
            rec["levels"].append([encode.e_int(v) for v in level])
    except ValueError as e:
        rec["malformed"] = str(e)
    return rec


# ------------------------------------------------------------------ inputs
def k_bounds(n, kind):
    top = 2 * (n - 1) if kind == "bd" else n - 1
    return [2 * k for k in range(0, max(top, 0) + 2)]


def s_bounds_full(A):
    """every half-integer s from 0 to one half past the largest strength (doubled)"""
    return list(range(0, 2 * int(A.sum(axis=0).max(initial=0)) + 2))


def s_bounds_sparse(rng, A):
    """0, the exact strengths, the half-integers next to them, a few others (doubled)"""
    st = sorted(set(int(v) for v in A.sum(axis=0)))
    top = 2 * (st[-1] if st else 0) + 1
    b = {0, 1, top}
    for v in st:
        b.update([2 * v - 1, 2 * v, 2 * v + 1])
    for _ in range(6):
        b.add(rng.randint(0, top))
    return sorted(x for x in b if 0 <= x <= top)


def tree_with_cliques(rng, n, und):
    """random tree (deep peeling: many rounds) with a clique glued in and isolated nodes"""
    A = np.zeros((n, n))
    order = list(range(n))
    rng.shuffle(order)
    m = rng.randint(max(2, n - 3), n)          # nodes beyond m stay isolated
    for idx in range(1, m):
        u, v = order[idx], order[rng.randrange(idx)]
        A[u, v] = 1
        if und or rng.random() < 0.5:
            A[v, u] = 1
    q = rng.sample(order[:m], min(m, rng.randint(3, 5)))
    for u in q:
        for v in q:
            if u != v and (und or rng.random() < 0.8):
                A[u, v] = 1
                if und:
                    A[v, u] = 1
    return A


def structured(rng, kind):
    """(und?, matrix) on a structured support: caterpillars (long chains: as many peeling rounds as
    the spine is long), rings of cliques (the k-core is exactly the cliques up to k = m-1, then
    nothing), paths / cycles / stars / complete / complete bipartite graphs (core = all or
    nothing at the boundary k = degree), equal / unequal components, isolated nodes"""
    name, n, edges = rc.structured_support(rng, 5, 10)
    und = kind != "bd"
    if not und:
        edges = rc.orient(rng, edges) if rng.random() < 0.7 else [e for (i, j) in edges for e in ((i, j), (j, i))]
    w = None
    if kind == "wu":
        ws = rng.choice([[1, 2, 3, 4, 5], [1, 2], [2], [1], [3]])         # single value: all strengths tie
        w = [rng.choice(ws) for _ in edges]
    return name, inputs.mat_from_edges(n, edges, und=und, w=w)


def job_of(rng, fn, src, A, b2s=None, p_plain=1.0):
    """p_plain < 1: draw the argument dtype / layout and how the bound is typed"""
    j = dict(fn=fn, src=src, A=A.tolist() if hasattr(A, "tolist") else A)
    if b2s is not None:
        j["b2s"] = b2s
    if p_plain < 1.0:
        fam = rc.DT_COUNT if fn == "score_wu" else rc.DT_BIN
        dt, lay = rc.draw_variant(rng, fam, p_plain)
        j.update(dtype=arg_dtype(fn, dt), layout=lay, ktype=rng.choice(["int", "int", "float", "np"]))
    return j


def build_jobs(ctx):
    rng = random.Random(ctx.seed)
    jobs = []
    # ---- model inputs: every undirected graph, every digraph
    for n in ([3, 4, 5] if ctx.quick else [3, 4, 5, 6]):
        graphs = inputs.model_graphs(ctx, "und", n)
        if n == 6:
            graphs = inputs.sample(rng, graphs, 6000)
        for edges in graphs:
            A = inputs.mat_from_edges(n, edges, und=True).tolist()
            jobs.append(dict(fn="kcore_bu", src="model", A=A, b2s=k_bounds(n, "bu")))
            jobs.append(dict(fn="kcoreness_centrality_bu", src="model", A=A))
    for n in [3, 4]:
        graphs = inputs.model_graphs(ctx, "dir", n)
        if n == 4 and ctx.quick:
            graphs = inputs.sample(rng, graphs, 1200)
        for edges in graphs:
            A = inputs.mat_from_edges(n, edges, und=False).tolist()
            jobs.append(dict(fn="kcore_bd", src="model", A=A, b2s=k_bounds(n, "bd")))
            jobs.append(dict(fn="kcoreness_centrality_bd", src="model", A=A))
    # ---- weighted: every weighting {1,2} of every support, full half-integer grid of s
    for n in [3, 4, 5]:
        graphs = inputs.model_graphs(ctx, "und", n)
        if n == 5:
            graphs = inputs.sample(rng, graphs, 60 if ctx.quick else 400)
        for edges in graphs:
            ws = list(itertools.product([1, 2], repeat=len(edges)))
            if n == 5:
                ws = inputs.sample(rng, ws, 12)
            for w in ws:
                A = inputs.mat_from_edges(n, edges, und=True, w=list(w))
                jobs.append(dict(fn="score_wu", src="model", A=A.tolist(), b2s=s_bounds_full(A)))
    # ---- a sample of the model inputs again as another argument dtype (bool/int32/int64/float32
    #      for the binary routines, int32/int64/float32 for score_wu), memory layout, bound type
    for j in inputs.sample(rng, jobs, 500 if ctx.quick else 5000):
        jobs.append(job_of(rng, j["fn"], "model-variant", j["A"], j.get("b2s"), p_plain=0.0))
    # ---- random larger graphs; routine, shape, density, dtype, layout, bound type independent draws
    nrand = 240 if ctx.quick else 3000
    for t in range(nrand):
        n = rng.randint(6, 10)
        kind = rng.choice(["bu", "bd", "wu"])
        und = kind != "bd"
        shape = rng.choice(["gnp", "gnp", "tree+cliques", "tree+cliques", "structured"])
        src = "random"
        if shape == "gnp":
            A = inputs.rand_graph(rng, n, rng.choice([0.15, 0.3, 0.5, 0.7]), und=und,
                                  wmax=5 if kind == "wu" else 1)
        elif shape == "structured":
            name, A = structured(rng, kind)
            n, src = len(A), "struct-" + name
        else:
            A = tree_with_cliques(rng, n, und)
            if kind == "wu":
                W = np.triu(np.vectorize(lambda x: rng.randint(1, 5))(A) * A, 1)
                A = W + W.T
        if kind == "wu":
            jobs.append(job_of(rng, "score_wu", src, A, s_bounds_sparse(rng, A), p_plain=0.4))
        else:
            jobs.append(job_of(rng, "kcore_" + kind, src, A, k_bounds(n, kind), p_plain=0.4))
            jobs.append(job_of(rng, "kcoreness_centrality_" + kind, src, A, p_plain=0.4))
    return jobs


def what(job, rec, clause):
    return "n=%d dtype=%s layout=%s ktype=%s src=%s A=%s" % (
        rec.get("n", -1), job.get("dtype", "float64"), job.get("layout", "C"), job.get("ktype", "int"),
        job.get("src"), rec.get("A"))


def run(ctx):
    if ctx.quick:
        models = ["MC_KCore_bu.cfg", "MC_KCore_bd.cfg", "MC_KCore_wu.cfg"]
    else:
        models = ["MC_KCore_bu_thorough.cfg", "MC_KCore_bd_thorough.cfg", "MC_KCore_wu_thorough.cfg",
                  "MC_KCore_wu_n5.cfg"]
    for cfg in models:
        ctx.mc("MC_KCore.tla", cfg)
    jobs = build_jobs(ctx)
    # the peeling loops are `while True`: probe a spread of jobs first so that a tree on which
    # they do not terminate costs seconds, not (number of jobs x time-out)
    probe = jobs[::max(1, len(jobs) // 160)]
    hung = sum(1 for r in pool.run_jobs(__name__, probe, limit=6.0) if r.get("timeout"))
    if hung > 0.05 * len(probe):
        raise core.MachineryError("%d of %d probe calls did not return within 6 s" % (hung, len(probe)))
    recs = [_fill(j, r) for j, r in zip(jobs, pool.run_jobs(__name__, jobs, limit=10.0))]
    verdicts = ctx.validate(*TRACE, recs, chunk=3000)
    ctx.judge(jobs, rc.tag_failures(ctx, jobs, recs, verdicts), verdicts, what)
    ctx.extra["argument_variants"] = rc.variant_counts(jobs)
    # non-trivial: distinct (fn, input) where for some bound > 0 the core is non-empty and
    # smaller than the set of non-isolated nodes (something was peeled, something stayed)
    seen = set()
    for r in recs:
        if r.get("timeout") or r["raised"] or not r["sizes"]:
            continue
        A = np.array(r["A"])
        noniso = int(((A.sum(axis=0) + A.sum(axis=1)) > 0).sum())
        if any(b > 0 and 0 < s < noniso for b, s in zip(r["b2s"], r["sizes"])):
            seen.add((r["fn"], str(r["A"])))
    ctx.nontrivial = len(seen)
    ctx.exhaustive = True
    ctx.rule = ("every undirected graph on %s nodes x every k; every digraph on 3 nodes and %s on 4 "
                "x every k up to 2(n-1)+1; every {1,2}-weighting of every support on 3..4 nodes "
                "(sampled on 5) x every half-integer s up to past the largest strength; seeded "
                "random graphs n in 6..10 (G(n,p), trees with cliques and isolated nodes, structured "
                "supports: caterpillars, rings of cliques, paths, cycles, stars, complete (bipartite), equal/"
                "unequal components; single-value weight sets); a sample of the model inputs and most random "
                "ones as another argument dtype (bool/int32/int64/float32 where the routine's domain allows), "
                "memory layout (Fortran, transposed, window, strided) and bound type (int, float, numpy "
                "integer), all drawn from the seeded RNG. "
                "non-trivial = distinct (function, input) for which some bound > 0 leaves a core "
                "that is neither empty nor all non-isolated nodes"
                % (("3..5", "a sample of 1200") if ctx.quick else ("3..5 (sample of 6000 on 6)", "every one")))
    for j, r in zip(jobs, recs):
        if j["src"] == "model" and j["fn"] == "kcore_bu" and len(r["A"]) == 4 and any(r["sizes"][1:]):
            ctx.add_sample("model-input", dict(job=j, record=r))
            break
    ctx.add_sample("random-input", dict(job=jobs[-1], record=recs[-1]))
    ctx.assumptions += [
        "TLC evaluates the L0 definitions correctly",
        "inputs have an empty diagonal, 0/1 entries (kcore) or small non-negative integer weights "
        "(score_wu); s is a multiple of 1/2, so every comparison strength < s is exact in floats",
        "for n > 5 the oracle is the set-based peeling operator, proved equal to the subset "
        "enumeration by MC_KCore on all model inputs",
        "the size returned for bound 0 (documented as the number of non-isolated nodes) is not judged",
    ]
    return ctx.finish()


def replay(ctx, rp):
    job = rp["job"]
    recs = [_fill(job, r) for r in pool.run_jobs(__name__, [job])]
    verdicts = ctx.validate(*TRACE, recs)
    core.log("replay verdict:", verdicts[0])
    ctx.judge([job], recs, verdicts, what)
    return ctx.finish()
