"""C10 - weighted measures reduce to binary on 0/1 input, directed to undirected on
symmetric input, weight-ignoring routines give the same on a matrix and its binarisation.

mc:       spec/MC_Relations.tla (modes dir01/symw: strength = degree on every 0/1 digraph,
          in = out = undirected degree on every symmetric weighted matrix, classes invariant
          under binarisation) and spec/MC_RelationsL0.tla (the L0 DEFINITIONS of
          Clustering.tla / Distance.tla satisfy the reductions on all small inputs).
gen:      the table of pairs is spec data (Relations!C10Pairs, dumped by GenC10Pairs.tla);
          all 0/1 graphs come from GenGraphs.tla (und n<=5, dir n<=4).
run:      both members of every pair on the same matrix (real code).
validate: spec/Trace_Relations.tla judges every record (domain, second input = binarisation,
          Returns, PairAgrees).
scale:    besides all small inputs, a seeded SCALE-REGIME family (scale_jobs): 100..150-node chains,
          rings, caterpillars, clique+long path, chains of diamonds (2^k shortest paths), a >127-degree
          star and dense 17..40-node graphs; as 0/1 matrices (every 0/1 pair) and with weights
          1e-4..1e-3, 1e3..1e4, 2^1..2^20, 2^-20..2^-8 (symmetric and weight-ignoring pairs).  These
          records are judged by the same clauses; reals beyond the E-q6 range travel as (hi, lo).
"""
import ctypes
import json
import os
import random
import time

import numpy as np

from .. import core, encode, inputs, pool
from . import rel_common as rc

FN = "C10"


# ------------------------------------------------------------- the real functions
def _fun(name):
    import bct
    base = name.split("@")[0]
    table = {
        "distance_wei": lambda A: bct.distance_wei(A)[0],
        "efficiency_wei": lambda A: bct.efficiency_wei(A),
        "efficiency_bin": lambda A: bct.efficiency_bin(A),
        "efficiency_wei[local]": lambda A: bct.efficiency_wei(A, local=True),
        "efficiency_bin[local]": lambda A: bct.efficiency_bin(A, local=True),
        "assortativity_wei[0]": lambda A: bct.assortativity_wei(A, 0),
        "assortativity_bin[0]": lambda A: bct.assortativity_bin(A, 0),
        "degrees_dir[in,out]": lambda A: bct.degrees_dir(A)[:2],
        "degrees_und[x2]": lambda A: (bct.degrees_und(A), bct.degrees_und(A)),
        "jdegree": lambda A: bct.jdegree(A.astype(int)),
    }
    if base in table:
        return table[base]
    return getattr(bct, base)


# what each routine may be handed for a drawn dtype (rel_common.admissible).  BINARY: documented
# for binary networks (bool allowed).  STRUCTURAL: integer-valued output (float32 allowed; the
# others return ratios / means).  Only betweenness_bin copies its argument to float first (uint8).
BINARY = {"betweenness_bin", "edge_betweenness_bin", "clustering_coef_bu", "clustering_coef_bd", "transitivity_bu",
          "transitivity_bd", "distance_bin", "efficiency_bin", "degrees_dir", "degrees_und", "assortativity_bin",
          "density_dir", "density_und", "edge_nei_overlap_bd", "edge_nei_overlap_bu", "findwalks", "jdegree",
          "reachdist"}
STRUCTURAL = {"distance_bin", "distance_wei", "strengths_dir", "strengths_und", "degrees_dir", "degrees_und",
              "findwalks", "jdegree", "reachdist"}


def arg_dtype(name, dtype):
    base = name.split("@")[0].split("[")[0]
    # (seed round 7) the weighted clustering / transitivity routines take the cube root of their argument
    # first (a float64 array on the unchanged tree), so an unsigned 8-bit matrix is ordinary input for them
    return rc.admissible(dtype, binary=base in BINARY, structural=base in STRUCTURAL,
                         floats_first=base in ("betweenness_bin", "clustering_coef_wu", "clustering_coef_wd",
                                               "transitivity_wu", "transitivity_wd"))


def _thunks(fw, fb, mkA, mkB):
    """mkA(name) / mkB(name): a FRESH argument array for routine `name` (so that the drawn memory
    layout survives; ndarray.copy() would hand over a C-contiguous array)"""
    import bct
    if (fw, fb) == ("strengths_dir", "degrees_dir"):
        # the docstring promises (is, os, str), the code returns str only: compare what is there
        def t1():
            return bct.strengths_dir(mkA(fw))

        def t2():
            s = bct.strengths_dir(mkA(fw))
            d = bct.degrees_dir(mkB(fb))
            return d if isinstance(s, tuple) else d[2]
        return t1, t2
    f1, f2 = _fun(fw), _fun(fb)
    return (lambda: f1(mkA(fw))), (lambda: f2(mkB(fb)))


GIGA = 10 ** 9


def enc_scaled(A, scale):
    """integer matrix A*scale (scale-regime inputs: weights k/scale with scale 1, 2^20 or 10^6);
    MachineryError unless lossless"""
    R = np.round(A * float(scale))
    if not np.all(R / float(scale) == A) or np.any(np.abs(R) >= GIGA):
        raise core.MachineryError("scale-regime weights are not k/%d" % scale)
    return encode.mat_int(R)


def enc_wide(x, kind):
    """like rel_common.enc_out, but a real whose round(x*10^6) does not fit below 10^9 is split
    into (hi, lo), value = hi*10^9 + lo, |lo| < 10^9, lo of the sign of the value
    (Relations!NearQWide); -> (lo list, hi list, shapes)"""
    lo, hi, shapes = [], [], []
    for comp in (list(x) if isinstance(x, tuple) else [x]):
        a = np.asarray(comp, dtype=float)
        shapes.append(list(a.shape))
        for v in a.ravel():
            v = float(v)
            if kind == "int" or not np.isfinite(v):
                lo.append(encode.e_int(v) if kind == "int" else encode.e_q(v))
                hi.append(0)
                continue
            q = int(round(v * encode.Q6))
            h = abs(q) // GIGA
            if h >= GIGA:
                raise ValueError("wide fixed-point overflow: %r" % v)
            sgn = -1 if q < 0 else 1
            hi.append(sgn * h)
            lo.append(sgn * (abs(q) - h * GIGA))
    return lo, hi, shapes


def call2_wide(thunk, kind):
    """-> (lo, hi, shape, raised)"""
    try:
        with np.errstate(all="ignore"):
            res = thunk()
    except Exception as e:                      # noqa: BLE001 - the outcome IS the datum
        return [], [], [], encode.exc_name(e)
    try:
        lo, hi, shape = enc_wide(res, kind)
    except (ValueError, TypeError) as e:
        return [], [], [], "Unencodable:" + str(e)[:60]
    return lo, hi, shape, ""


_BLAS_DONE = []


def blas_single_thread():
    """performance only: the pool runs 16 worker processes; OpenBLAS would start 16 threads in each
    of them for every 150x150 product of the matrix-power routines (hundreds of times slower on a
    busy machine).  No effect on any value."""
    if _BLAS_DONE:
        return
    _BLAS_DONE.append(1)
    try:
        with open("/proc/self/maps") as f:
            libs = sorted({ln.split()[-1] for ln in f if "openblas" in ln and ".so" in ln})
        for path in libs:
            lib = ctypes.CDLL(path)
            for name in ("scipy_openblas_set_num_threads64_", "scipy_openblas_set_num_threads",
                         "openblas_set_num_threads64_", "openblas_set_num_threads"):
                if hasattr(lib, name):
                    getattr(lib, name)(1)
                    break
    except Exception:                           # noqa: BLE001
        pass


def exec_job(job):
    A = np.array(job["A"], dtype=float)
    n = len(A)
    dom, kind = job["dom"], job["kind"]
    big = bool(job.get("big"))
    if big:
        blas_single_thread()
        scale, Ai = job["wscale"], enc_scaled(A, job["wscale"])
    else:
        scale, Ai = rc.enc_matrix(A)
    if dom in ("wund", "wdir"):
        B = (A != 0).astype(float)
        Bi = [[int(v) for v in row] for row in B]
    else:
        B, Bi = A, []
    rec = dict(prop="C10", fn="%s~%s@%s" % (job["fw"], job["fb"], dom), fw=job["fw"], fb=job["fb"],
               dom=dom, kind=kind, n=n, scale=scale, A=Ai, B=Bi)
    # the same matrices as another argument dtype / memory layout: one draw per input, each
    # member of the pair is handed what ITS routine may get (arg_dtype); A/B above stay exact
    dt, lay = job.get("dtype", "float64"), job.get("layout", "C")
    intlike = bool(np.all(A == np.round(A)))

    def mkA(name):
        return rc.as_variant(A, arg_dtype(name, dt) if intlike else "float64", lay)

    def mkB(name):
        return rc.as_variant(B, arg_dtype(name, dt) if (intlike or B is not A) else "float64", lay)
    mkA(job["fw"]), mkB(job["fb"])
    t1, t2 = _thunks(job["fw"], job["fb"], mkA, mkB)
    if big:
        rec["out1"], h1, rec["shape1"], rec["raised1"] = call2_wide(t1, kind)
        rec["out2"], h2, rec["shape2"], rec["raised2"] = call2_wide(t2, kind)
        if any(h1) or any(h2):                  # no wide value: the plain E-q6 record
            rec["hi1"], rec["hi2"] = h1, h2
    else:
        rec["out1"], rec["shape1"], rec["raised1"] = rc.call2(t1, kind)
        rec["out2"], rec["shape2"], rec["raised2"] = rc.call2(t2, kind)
    return rec


# ------------------------------------------------------------------- inputs
def spec_pairs(ctx):
    path = os.path.join(ctx.work, "c10pairs.json")
    r = ctx._tlc("GenC10Pairs.tla", "GenC10Pairs.cfg", "gen_pairs", env={"GEN_FILE": path}, workers=1)
    if "No error has been found" not in r["out"] or not os.path.exists(path):
        raise core.MachineryError("GenC10Pairs failed: %s" % r["out"][-1500:])
    with open(path) as f:
        pairs = json.load(f)
    for p in pairs:                       # every pair of the spec's table must be runnable
        try:
            _fun(p["fw"]), _fun(p["fb"])
        except AttributeError as e:
            raise core.MachineryError("no runner for spec pair %s: %s" % (p, e))
    return sorted(pairs, key=lambda p: (p["dom"], p["fw"], p["fb"]))


MAXN = {"findwalks": 7}


def add(jobs, pairs, doms, A, src, variant=rc.PLAIN):
    n = len(A)
    for p in pairs:
        if p["dom"] not in doms or n > MAXN.get(p["fw"], 99):
            continue
        jobs.append(dict(fn="%s~%s@%s" % (p["fw"], p["fb"], p["dom"]), fw=p["fw"], fb=p["fb"],
                         dom=p["dom"], kind=p["kind"], src=src, A=A.tolist(),
                         dtype=variant[0], layout=variant[1]))


def family(A):
    """the dtype universe of one input: 0/1 -> DT_BIN, other small integers -> DT_COUNT (the
    binarised second input of the weight-ignoring pairs is 0/1 anyway), k/1000 -> layouts only"""
    A = np.asarray(A)
    if np.all((A == 0) | (A == 1)):
        return rc.DT_BIN
    return rc.DT_COUNT if np.all(A == np.round(A)) else rc.DT_FLOAT


INTW = [1, 2, 3]
UNITW = [0.125, 0.25, 0.3, 0.5, 0.7, 1.0]      # weights in (0,1], all k/1000
WSETS = [INTW, UNITW, [2], [1.0], [0.5], [1, 3], [0.25, 1.0]]   # single values: every weight ties


def weigh(rng, A, vals, und):
    W = np.zeros_like(A)
    n = len(A)
    for i in range(n):
        for j in range(n):
            if A[i, j] and (not und or i < j):
                W[i, j] = rng.choice(vals)
                if und:
                    W[j, i] = W[i, j]
    return W


def build_jobs(ctx, pairs):
    rng = random.Random(ctx.seed)
    jobs = []
    # --- every 0/1 undirected graph n<=5, every 0/1 digraph n<=4 (TLC-enumerated)
    for n in (3, 4, 5):
        for edges in inputs.model_graphs(ctx, "und", n):
            A = inputs.mat_from_edges(n, edges, und=True)
            add(jobs, pairs, ("01", "01und"), A, "model-und")
    for n in (3, 4):
        graphs = inputs.model_graphs(ctx, "dir", n)
        if n == 4 and ctx.quick:
            graphs = inputs.sample(rng, graphs, 400)
        for edges in graphs:
            A = inputs.mat_from_edges(n, edges, und=False)
            add(jobs, pairs, ("01",), A, "model-dir")
    # --- symmetric weighted: model supports decorated with integer / (0,1] weights
    for n in (3, 4, 5):
        graphs = inputs.model_graphs(ctx, "und", n)
        if n == 5 and ctx.quick:
            graphs = inputs.sample(rng, graphs, 300)
        for edges in graphs:
            if not edges:
                continue
            A = inputs.mat_from_edges(n, edges, und=True)
            for vals in ((INTW, UNITW) if (n < 5 or not ctx.quick) else (rng.choice((INTW, UNITW)),)):
                add(jobs, pairs, ("symw", "wund"), weigh(rng, A, vals, True), "model-und-weighted")
    # --- directed weighted for the weight-ignoring routines
    for n in (3, 4):
        graphs = inputs.model_graphs(ctx, "dir", n)
        graphs = inputs.sample(rng, graphs, 64 if n == 3 else (250 if ctx.quick else 4096))
        for edges in graphs:
            if not edges:
                continue
            A = inputs.mat_from_edges(n, edges, und=False)
            add(jobs, pairs, ("wdir",), weigh(rng, A, INTW, False), "model-dir-weighted")
    # --- a sample of the model inputs again as another argument dtype / memory layout
    plain = {}
    for j in jobs:
        plain.setdefault((j["src"], str(j["A"])), j)
    by_src = {}
    for (src, _), j in sorted(plain.items()):
        by_src.setdefault(src, []).append(j)
    doms_of = {"model-und": ("01", "01und"), "model-dir": ("01",), "model-und-weighted": ("symw", "wund"),
               "model-dir-weighted": ("wdir",)}
    for src, cap in (("model-und", 120), ("model-dir", 80), ("model-und-weighted", 80), ("model-dir-weighted", 60)):
        for j in inputs.sample(rng, by_src.get(src, []), cap if ctx.quick else 10 * cap):
            A = np.array(j["A"], dtype=float)
            add(jobs, pairs, doms_of[src], A, src + "-variant", rc.draw_variant(rng, family(A)))
    # --- random n<=10: sparse (disconnected, isolated nodes), dense, tie-rich; structured families
    #     (paths, cycles, stars, complete, bipartite, caterpillars, rings of cliques, equal/unequal
    #     components, isolated nodes) undirected and oriented; density, isolation, weight set, dtype
    #     and layout are independent draws
    nrand = 60 if ctx.quick else 1500
    for k in range(nrand):
        n = rng.randint(6, 10)
        p = rng.choice([0.1, 0.2, 0.35, 0.6, 0.9])
        U = inputs.rand_graph(rng, n, p, und=True)
        D = inputs.rand_graph(rng, n, p / rng.choice([1, 1, 2]), und=False)
        if rng.random() < 0.2:                # an isolated node
            v = rng.randrange(n)
            U[v, :] = 0; U[:, v] = 0; D[v, :] = 0; D[:, v] = 0
        inputs_k = [(U, D, "random")]
        if rng.random() < 0.6:
            name, m, edges = rc.structured_support(rng, 5, 10)
            inputs_k.append((inputs.mat_from_edges(m, edges, und=True),
                             inputs.mat_from_edges(m, rc.orient(rng, edges), und=False), "struct-" + name))
        for U, D, src in inputs_k:
            dv = lambda M: rc.draw_variant(rng, family(M), p_plain=0.4)
            add(jobs, pairs, ("01", "01und"), U, src + "-und", dv(U))
            add(jobs, pairs, ("01",), D, src + "-dir", dv(D))
            if U.any():
                W = weigh(rng, U, rng.choice(WSETS), True)
                add(jobs, pairs, ("symw", "wund"), W, src + "-und-weighted", dv(W))
            if D.any():
                W = weigh(rng, D, rng.choice([INTW, INTW, [2], [1, 3]]), False)
                add(jobs, pairs, ("wdir",), W, src + "-dir-weighted", dv(W))
    return jobs


# ------------------------------------------------------- scale-regime family
# Everything above is "all small inputs".  The slips that small inputs cannot show live in other
# regimes of SCALE: path lengths / degrees / node counts beyond 127 (int8) ; 2^k equal shortest
# paths and walk counts beyond 2^31, 2^63, 3.4e38 (int32, int64, float32 counters) ; products of
# weights along 80..150-hop chains under/overflowing a double (raw weights leaking into a routine
# that should only see the zero pattern) ; integer weights whose products wrap ; dense graphs beyond
# n = 10.  A few seeded inputs per regime; every pair of the table whose domain admits the input is run.
BIG_LIMIT = 120.0           # s per call (a 150-node betweenness_bin takes 1..10 s on a busy machine)
POW20 = 2 ** 20
REGIMES = {                 # name -> (scale of the encoding, draw of one weight)
    "tiny": (10 ** 6, lambda rng: rng.randint(100, 1000) / 1e6),         # 1e-4 .. 1e-3
    "big": (1, lambda rng: float(rng.randint(1000, 10000))),             # 1e3 .. 1e4
    "pow2": (1, lambda rng: float(2 ** rng.randint(1, 20))),             # exact, products wrap in intN
    "npow2": (POW20, lambda rng: 2.0 ** -rng.randint(8, 20)),            # exact, products underflow to 0
}
CUBE_PAIRS = ("clustering_coef_wu", "clustering_coef_wd", "transitivity_wu", "transitivity_wd")
PATH_PAIRS = ("distance_wei", "betweenness_wei", "edge_betweenness_wei", "efficiency_wei", "reachdist")


def s_diamonds(k, width=2):
    """chain of k diamonds: (width+1)k+1 nodes, width^k equal shortest paths between its two ends
    (powers of two are exact in every float type, powers of three beyond 2^24 / 2^53 are not)"""
    E = []
    for d in range(k):
        a = (width + 1) * d
        for b in range(1, width + 1):
            E += [(a, a + b), (a + b, a + width + 1)]
    return (width + 1) * k + 1, E


def s_lollipop(m, n):
    """clique of m nodes + path up to n nodes: long distances AND walk counts ~ (m-1)^length"""
    return rc.s_complete(m) + [(i, i + 1) for i in range(m - 1, n - 1)]


def scale_supports(ctx, rng):
    """-> [(name, n, undirected edge list, in the path-count regime?)]"""
    out = []
    for _ in range(1 if ctx.quick else 2):
        n = rng.randint(110, 130) if ctx.quick else rng.randint(110, 150)
        out.append(("chain", n, rc.s_path(n), False))
        n = rng.randint(140, 150)                       # spine of 93..100 nodes
        out.append(("caterpillar", n, rc.s_caterpillar(rng, n), False))
        m, n = rng.randint(8, 14), rng.randint(100, 115)
        out.append(("clique+path", n, s_lollipop(m, n), True))     # walk counts beyond 1e38 / 2^63
        k = rng.randint(33, 36) if ctx.quick else rng.randint(33, 45)
        out.append(("diamonds", ) + s_diamonds(k) + (True,))       # 2^33.. equal shortest paths
        k = rng.randint(24, 30)                         # 3^24..3^30 paths: not a float32 number
        out.append(("diamonds3", ) + s_diamonds(k, 3) + (False,))
        n = rng.randint(130, 150)                       # one degree beyond 127
        out.append(("star", n, rc.s_star(n), False))
        for _d in range(2):
            n, p = rng.randint(17, 40), rng.choice([0.3, 0.6, 0.9])
            U = inputs.rand_graph(rng, n, p, und=True)
            out.append(("dense", n, [(i, j) for i in range(n) for j in range(i + 1, n) if U[i, j]], False))
    if not ctx.quick:
        k = rng.randint(64, 68)                         # beyond 2^63 equal shortest paths
        out.append(("diamonds", ) + s_diamonds(k) + (True,))
        k = rng.randint(34, 40)                         # 3^34.. > 2^53: not a float64 number either
        out.append(("diamonds3", ) + s_diamonds(k, 3) + (True,))
        n = rng.randint(180, 200)
        out.append(("chain", n, rc.s_path(n), False))
        n = rng.randint(230, 260)                       # a ring needs n > 200 for 100+-hop distances
        out.append(("ring", n, rc.s_cycle(n), False))
        m, n = rng.randint(20, 30), rng.randint(130, 150)
        out.append(("clique+path", n, s_lollipop(m, n), True))
    res = []
    for name, n, E, pc in out:
        if rng.random() < 0.5:                          # half of them renumbered at random
            perm = list(range(n))
            rng.shuffle(perm)
            E = sorted(set(tuple(sorted((perm[i], perm[j]))) for i, j in E))
        res.append((name, n, E, pc))
    return res


def add_big(jobs, pairs, doms, A, src, wscale, variant=rc.PLAIN, only=None, seen=None):
    intlike = bool(np.all(A == np.round(A)))
    for p in pairs:
        if p["dom"] not in doms or len(A) > MAXN.get(p["fw"], 10 ** 6):
            continue
        if p["fw"] == "jdegree" and not intlike:        # its runner casts to int: lossless only then
            continue
        if only is not None and p["fw"] not in only:
            continue
        if seen is not None:        # dtype sweep: skip a draw that hands both members what an earlier one did
            eff = (p["fw"], p["fb"], arg_dtype(p["fw"], variant[0]), arg_dtype(p["fb"], variant[0]))
            if eff in seen:
                continue
            seen.add(eff)
        jobs.append(dict(fn="%s~%s@%s" % (p["fw"], p["fb"], p["dom"]), fw=p["fw"], fb=p["fb"],
                         dom=p["dom"], kind=p["kind"], src=src, A=A.tolist(), big=1, wscale=wscale,
                         dtype=variant[0], layout=variant[1]))


def scale_jobs(ctx, pairs):
    rng = random.Random(ctx.seed * 7919 + 1010)
    jobs = []
    order = []
    for name, n, E, pathcount in scale_supports(ctx, rng):
        U = inputs.mat_from_edges(n, E, und=True)
        D = inputs.mat_from_edges(n, rc.orient(rng, E), und=False)
        src = "scale-" + name
        dv = lambda fam: rc.draw_variant(rng, fam, p_plain=0.3)
        # --- (1) as 0/1 matrices: weighted = binary, directed = undirected
        add_big(jobs, pairs, ("01", "01und"), U, src + "-und", 1, dv(rc.DT_BIN))
        if not ctx.quick or rng.random() < 0.5:
            add_big(jobs, pairs, ("01",), D, src + "-dir", 1, dv(rc.DT_BIN))
        if pathcount:       # path / walk counters: every admissible argument dtype (a routine counts
            seen = set()    # paths in the dtype it is handed or in one of its own)
            for dt in rc.DT_BIN:
                add_big(jobs, pairs, ("01",), U, src + "-und-dtypes", 1, (dt, rng.choice(rc.LAYOUTS)),
                        only=PATH_PAIRS, seen=seen)
        # (seed round 7) cube-root routines on 8-bit 0/1 matrices: dense supports have thousands of closed
        # 3-walks - sums that a half-precision intermediate cannot hold (float16: 2048 exactly, 65504 at all)
        add_big(jobs, pairs, ("01", "01und"), U, src + "-und-u8", 1, ("uint8", rng.choice(rc.LAYOUTS)), only=CUBE_PAIRS)
        # --- (2) weighted: directed = undirected on symmetric, weights ignored by those that say so
        regs = []               # one regime per input (thorough: two), cycling through all of them
        for _ in range(1 if ctx.quick else 2):
            if not order:
                order = sorted(REGIMES)
                rng.shuffle(order)
            regs.append(order.pop())
        for rg in regs:
            wscale, draw = REGIMES[rg]
            W = np.zeros_like(U)
            for (i, j) in E:
                W[i, j] = W[j, i] = draw(rng)
            Wd = np.where(D != 0, W, 0.0) if rng.random() < 0.5 else D * draw(rng)   # mixed / one value
            fam = family(W)
            add_big(jobs, pairs, ("symw", "wund"), W, "%s-%s-und" % (src, rg), wscale, dv(fam))
            which = rng.choice(("sym", "dir")) if ctx.quick else "both"
            if which in ("sym", "both") or not Wd.any():
                add_big(jobs, pairs, ("wdir",), W, "%s-%s-und" % (src, rg), wscale, dv(fam))
            if which in ("dir", "both") and Wd.any():
                add_big(jobs, pairs, ("wdir",), Wd, "%s-%s-dir" % (src, rg), wscale, dv(fam))
            if fam is rc.DT_COUNT and pathcount:    # integer weights: products wrap in intN
                seen = set()
                for dt in ("int64", "int32", "float32"):
                    add_big(jobs, pairs, ("wdir",), W, "%s-%s-und-dtypes" % (src, rg), wscale,
                            (dt, rng.choice(rc.LAYOUTS)), only=PATH_PAIRS, seen=seen)
    return jobs


BAD_SKIPS = ("skip:unknown_pair", "skip:outside_domain", "skip:second_input_not_binarisation",
             "skip:kind_mismatch", "skip:unknown_property")


def run(ctx):
    tag = "" if ctx.quick else "_thorough"
    ctx.mc("MC_Relations.tla", "MC_Relations_c10%s.cfg" % tag)
    ctx.mc("MC_RelationsL0.tla", "MC_RelationsL0%s.cfg" % tag)
    pairs = spec_pairs(ctx)
    jobs = build_jobs(ctx, pairs)
    recs = pool.run_jobs(__name__, jobs, reuse=True, abort=True)   # (no strict_fp: transitivity of a graph without a connected triple is 0/0 by definition)
    verdicts = ctx.validate(*rc.TRACE, recs, tag="c10")
    bad = [(j["fn"], v[0]) for j, v in zip(jobs, verdicts) if v[0] in BAD_SKIPS]
    if bad:
        raise core.MachineryError("harness produced records outside the spec's table/domains: %s" % bad[:5])
    # --- the scale-regime family: run and judged separately (large records, generous time limit)
    njobs_small, t0 = len(jobs), time.time()
    bjobs = scale_jobs(ctx, pairs)
    brecs = pool.run_jobs(__name__, bjobs, limit=BIG_LIMIT)
    bverdicts = ctx.validate(*rc.TRACE, brecs, tag="c10scale", chunk=120)
    bad = [(j["fn"], v[0]) for j, v in zip(bjobs, bverdicts) if v[0] in BAD_SKIPS]
    if bad:
        raise core.MachineryError("scale family produced records outside the spec's table/domains: %s" % bad[:5])
    ctx.extra["scale_family"] = dict(
        records=len(bjobs), timeouts=sum(1 for r in brecs if r.get("timeout")),
        inputs=sorted({"%s n=%d" % (j["src"], len(j["A"])) for j in bjobs}),
        wide_values=sum(1 for r in brecs for h in r.get("hi1", []) if h), wall_s=round(time.time() - t0, 1))
    core.log("  scale family: %d records, %.1fs" % (len(bjobs), time.time() - t0))
    jobs, recs, verdicts = jobs + bjobs, recs + brecs, verdicts + bverdicts
    ctx.judge(jobs, rc.tag_failures(ctx, jobs, recs, verdicts), verdicts, what=describe)
    ctx.extra["verdict_counts"] = rc.count_verdicts(recs, verdicts)
    ctx.extra["argument_variants"] = rc.variant_counts(jobs)
    rc.note_never_judged(ctx, recs, verdicts)
    seen, per_pair = set(), {}
    for j, r, v in zip(jobs, recs, verdicts):
        if not v[0].startswith("skip:") and any(x not in (0, core_nan()) for x in r.get("out1", [])):
            seen.add((r["fn"], str(r["A"])))
        per_pair[r["fn"]] = per_pair.get(r["fn"], 0) + 1
    ctx.nontrivial = len(seen)
    ctx.exhaustive = True
    ctx.extra["pairs"] = per_pair
    ctx.rule = ("%d pairs of spec/Relations.tla!C10Pairs, each evaluated on: every 0/1 undirected graph "
                "n<=5 and 0/1 digraph n<=4 (TLC-enumerated; digraphs n=4 %s), the same supports with "
                "integer and (0,1] weights for the symmetric / weight-ignoring pairs, a sample of these again "
                "as another argument dtype (bool/int32/int64/uint8/float32, each member of a pair handed what "
                "its routine's domain allows) and memory layout (Fortran, transposed, window, strided), seeded "
                "random n in 6..10 (sparse/disconnected/isolated node/dense) and structured families (paths, "
                "cycles, stars, complete, bipartite, caterpillars, rings of cliques, equal/unequal components; "
                "also oriented) with weight sets incl. single values, all choices RNG-drawn; a seeded scale-regime family "
                "(%d records: chains/caterpillars/clique+path%s of 100..150 nodes, chains of 33..36%s diamonds (2^k equal "
                "shortest paths) and of 24..30 three-way diamonds (3^k), "
                "a star with a degree > 127, dense graphs n in 17..40; as 0/1 matrices and with weights 1e-4..1e-3, "
                "1e3..1e4, 2^1..2^20, 2^-20..2^-8; path-count inputs under every argument dtype); "
                "non-trivial = distinct (pair, input) "
                "judged (not skipped) whose first output has a nonzero entry"
                % (len(pairs), "sampled" if ctx.quick else "all", len(bjobs),
                   "" if ctx.quick else "/rings (up to 260)", "" if ctx.quick else ", 64..68"))
    k = next((i for i, j in enumerate(jobs) if j["src"].endswith("-und-weighted") and j["src"][:5] != "model"), 0)
    ctx.add_sample("model-input", dict(job=jobs[40], record=recs[40], verdict=verdicts[40]))
    ctx.add_sample("random-input", dict(job=jobs[k], record=recs[k], verdict=verdicts[k]))
    kb = next((i for i in range(njobs_small, len(jobs)) if jobs[i]["fw"] == "degrees_dir" and "tiny" in jobs[i]["src"]),
              njobs_small)
    ctx.add_sample("scale-input", dict(job={a: b for a, b in jobs[kb].items() if a != "A"}, n=len(jobs[kb]["A"]),
                                       out1=recs[kb].get("out1", [])[:12], verdict=verdicts[kb]))
    ctx.assumptions += [
        "TLC evaluates the definitions of spec/Relations.tla correctly",
        "outputs are compared after encoding: integers exactly, reals as round(x*10^6) within +-2",
        "weights are integers 1..3 or k/1000 in (0,1] (lossless encoding of the zero pattern/symmetry); in the "
        "scale-regime family k/10^6, integers up to 2^20 and 2^-8..2^-20, reals beyond 10^3 compared as (hi, lo) "
        "pairs at the same 10^-6 resolution",
        "a pair whose two members raise the same exception is skipped (nothing is returned to compare); "
        "assortativity is skipped where it is 0/0 (all edge-end degrees equal)",
        "efficiency_wei(local='original') is documented NOT to generalise the binary variant and is not paired",
    ]
    return ctx.finish()


def describe(job, rec, clause):
    if not job.get("big"):
        return rc.describe(job, rec, clause)
    A = np.array(job["A"])
    k = next((i for i, (x, y) in enumerate(zip(rec.get("out1", []), rec.get("out2", []))) if x != y), 0)
    return ("pair %s / %s on %s: raised=(%r,%r) first differing entry #%d out1=%s out2=%s (of %d) dtype=%s "
            "layout=%s input=%s n=%d, %d nonzero entries, weights in [%g, %g] (full matrix in the replay file)" % (
                rec["fw"], rec["fb"], rec["dom"], rec["raised1"], rec["raised2"], k, rec["out1"][k:k + 6],
                rec["out2"][k:k + 6], len(rec.get("out1", [])), job.get("dtype"), job.get("layout"), job["src"],
                len(A), int(np.count_nonzero(A)), A[A != 0].min() if A.any() else 0, A.max()))


def core_nan():
    from .. import encode
    return encode.NAN


def replay(ctx, rp):
    job = rp["job"]
    recs = pool.run_jobs(__name__, [job], limit=BIG_LIMIT if job.get("big") else 20.0)
    verdicts = ctx.validate(*rc.TRACE, recs, tag="c10")
    core.log("replay verdict:", verdicts[0])
    core.log("  " + describe(job, recs[0], verdicts[0][0]))
    ctx.judge([job], recs, verdicts, what=describe)
    return ctx.finish()
