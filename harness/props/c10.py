"""C10 - weighted measures reduce to binary on 0/1 input, directed to undirected on
symmetric input, weight-ignoring routines give the same on a matrix and its binarisation.

mc:       spec/MC_Relations.tla (modes dir01/symw: strength = degree on every 0/1 digraph,
          in = out = undirected degree on every symmetric weighted matrix, classes invariant
          under binarisation) and spec/MC_RelationsL0.tla (the L0 DEFINITIONS of
          Clustering.tla / Distance.tla satisfy the reductions on all small inputs).
gen:      the table of pairs is spec data (Relations!C10Pairs, dumped by GenC10Pairs.tla);
          all 0/1 graphs come from GenGraphs.tla (und n<=5, dir n<=4).
run:      both members of every pair on the same matrix (real code).
validate: spec/Trace_Relations.tla judges every record (domain, second input = binarisation,
          Returns, PairAgrees).
"""
import json
import os
import random

import numpy as np

from .. import core, inputs, pool
from . import rel_common as rc

FN = "C10"


# ------------------------------------------------------------- the real functions
def _fun(name):
    import bct
    base = name.split("@")[0]
    table = {
        "distance_wei": lambda A: bct.distance_wei(A)[0],
        "efficiency_wei": lambda A: bct.efficiency_wei(A),
        "efficiency_bin": lambda A: bct.efficiency_bin(A),
        "efficiency_wei[local]": lambda A: bct.efficiency_wei(A, local=True),
        "efficiency_bin[local]": lambda A: bct.efficiency_bin(A, local=True),
        "assortativity_wei[0]": lambda A: bct.assortativity_wei(A, 0),
        "assortativity_bin[0]": lambda A: bct.assortativity_bin(A, 0),
        "degrees_dir[in,out]": lambda A: bct.degrees_dir(A)[:2],
        "degrees_und[x2]": lambda A: (bct.degrees_und(A), bct.degrees_und(A)),
        "jdegree": lambda A: bct.jdegree(A.astype(int)),
    }
    if base in table:
        return table[base]
    return getattr(bct, base)


# what each routine may be handed for a drawn dtype (rel_common.admissible).  BINARY: documented
# for binary networks (bool allowed).  STRUCTURAL: integer-valued output (float32 allowed; the
# others return ratios / means).  Only betweenness_bin copies its argument to float first (uint8).
BINARY = {"betweenness_bin", "edge_betweenness_bin", "clustering_coef_bu", "clustering_coef_bd", "transitivity_bu",
          "transitivity_bd", "distance_bin", "efficiency_bin", "degrees_dir", "degrees_und", "assortativity_bin",
          "density_dir", "density_und", "edge_nei_overlap_bd", "edge_nei_overlap_bu", "findwalks", "jdegree",
          "reachdist"}
STRUCTURAL = {"distance_bin", "distance_wei", "strengths_dir", "strengths_und", "degrees_dir", "degrees_und",
              "findwalks", "jdegree", "reachdist"}


def arg_dtype(name, dtype):
    base = name.split("@")[0].split("[")[0]
    return rc.admissible(dtype, binary=base in BINARY, structural=base in STRUCTURAL,
                         floats_first=base == "betweenness_bin")


def _thunks(fw, fb, mkA, mkB):
    """mkA(name) / mkB(name): a FRESH argument array for routine `name` (so that the drawn memory
    layout survives; ndarray.copy() would hand over a C-contiguous array)"""
    import bct
    if (fw, fb) == ("strengths_dir", "degrees_dir"):
        # the docstring promises (is, os, str), the code returns str only: compare what is there
        def t1():
            return bct.strengths_dir(mkA(fw))

        def t2():
            s = bct.strengths_dir(mkA(fw))
            d = bct.degrees_dir(mkB(fb))
            return d if isinstance(s, tuple) else d[2]
        return t1, t2
    f1, f2 = _fun(fw), _fun(fb)
    return (lambda: f1(mkA(fw))), (lambda: f2(mkB(fb)))


def exec_job(job):
    A = np.array(job["A"], dtype=float)
    n = len(A)
    dom, kind = job["dom"], job["kind"]
    scale, Ai = rc.enc_matrix(A)
    if dom in ("wund", "wdir"):
        B = (A != 0).astype(float)
        Bi = [[int(v) for v in row] for row in B]
    else:
        B, Bi = A, []
    rec = dict(prop="C10", fn="%s~%s@%s" % (job["fw"], job["fb"], dom), fw=job["fw"], fb=job["fb"],
               dom=dom, kind=kind, n=n, scale=scale, A=Ai, B=Bi)
    # the same matrices as another argument dtype / memory layout: one draw per input, each
    # member of the pair is handed what ITS routine may get (arg_dtype); A/B above stay exact
    dt, lay = job.get("dtype", "float64"), job.get("layout", "C")
    intlike = bool(np.all(A == np.round(A)))

    def mkA(name):
        return rc.as_variant(A, arg_dtype(name, dt) if intlike else "float64", lay)

    def mkB(name):
        return rc.as_variant(B, arg_dtype(name, dt) if (intlike or B is not A) else "float64", lay)
    mkA(job["fw"]), mkB(job["fb"])
    t1, t2 = _thunks(job["fw"], job["fb"], mkA, mkB)
    rec["out1"], rec["shape1"], rec["raised1"] = rc.call2(t1, kind)
    rec["out2"], rec["shape2"], rec["raised2"] = rc.call2(t2, kind)
    return rec


# ------------------------------------------------------------------- inputs
def spec_pairs(ctx):
    path = os.path.join(ctx.work, "c10pairs.json")
    r = ctx._tlc("GenC10Pairs.tla", "GenC10Pairs.cfg", "gen_pairs", env={"GEN_FILE": path}, workers=1)
    if "No error has been found" not in r["out"] or not os.path.exists(path):
        raise core.MachineryError("GenC10Pairs failed: %s" % r["out"][-1500:])
    with open(path) as f:
        pairs = json.load(f)
    for p in pairs:                       # every pair of the spec's table must be runnable
        try:
            _fun(p["fw"]), _fun(p["fb"])
        except AttributeError as e:
            raise core.MachineryError("no runner for spec pair %s: %s" % (p, e))
    return sorted(pairs, key=lambda p: (p["dom"], p["fw"], p["fb"]))


MAXN = {"findwalks": 7}


def add(jobs, pairs, doms, A, src, variant=rc.PLAIN):
    n = len(A)
    for p in pairs:
        if p["dom"] not in doms or n > MAXN.get(p["fw"], 99):
            continue
        jobs.append(dict(fn="%s~%s@%s" % (p["fw"], p["fb"], p["dom"]), fw=p["fw"], fb=p["fb"],
                         dom=p["dom"], kind=p["kind"], src=src, A=A.tolist(),
                         dtype=variant[0], layout=variant[1]))


def family(A):
    """the dtype universe of one input: 0/1 -> DT_BIN, other small integers -> DT_COUNT (the
    binarised second input of the weight-ignoring pairs is 0/1 anyway), k/1000 -> layouts only"""
    A = np.asarray(A)
    if np.all((A == 0) | (A == 1)):
        return rc.DT_BIN
    return rc.DT_COUNT if np.all(A == np.round(A)) else rc.DT_FLOAT


INTW = [1, 2, 3]
UNITW = [0.125, 0.25, 0.3, 0.5, 0.7, 1.0]      # weights in (0,1], all k/1000
WSETS = [INTW, UNITW, [2], [1.0], [0.5], [1, 3], [0.25, 1.0]]   # single values: every weight ties


def weigh(rng, A, vals, und):
    W = np.zeros_like(A)
    n = len(A)
    for i in range(n):
        for j in range(n):
            if A[i, j] and (not und or i < j):
                W[i, j] = rng.choice(vals)
                if und:
                    W[j, i] = W[i, j]
    return W


def build_jobs(ctx, pairs):
    rng = random.Random(ctx.seed)
    jobs = []
    # --- every 0/1 undirected graph n<=5, every 0/1 digraph n<=4 (TLC-enumerated)
    for n in (3, 4, 5):
        for edges in inputs.model_graphs(ctx, "und", n):
            A = inputs.mat_from_edges(n, edges, und=True)
            add(jobs, pairs, ("01", "01und"), A, "model-und")
    for n in (3, 4):
        graphs = inputs.model_graphs(ctx, "dir", n)
        if n == 4 and ctx.quick:
            graphs = inputs.sample(rng, graphs, 400)
        for edges in graphs:
            A = inputs.mat_from_edges(n, edges, und=False)
            add(jobs, pairs, ("01",), A, "model-dir")
    # --- symmetric weighted: model supports decorated with integer / (0,1] weights
    for n in (3, 4, 5):
        graphs = inputs.model_graphs(ctx, "und", n)
        if n == 5 and ctx.quick:
            graphs = inputs.sample(rng, graphs, 300)
        for edges in graphs:
            if not edges:
                continue
            A = inputs.mat_from_edges(n, edges, und=True)
            for vals in ((INTW, UNITW) if (n < 5 or not ctx.quick) else (rng.choice((INTW, UNITW)),)):
                add(jobs, pairs, ("symw", "wund"), weigh(rng, A, vals, True), "model-und-weighted")
    # --- directed weighted for the weight-ignoring routines
    for n in (3, 4):
        graphs = inputs.model_graphs(ctx, "dir", n)
        graphs = inputs.sample(rng, graphs, 64 if n == 3 else (250 if ctx.quick else 4096))
        for edges in graphs:
            if not edges:
                continue
            A = inputs.mat_from_edges(n, edges, und=False)
            add(jobs, pairs, ("wdir",), weigh(rng, A, INTW, False), "model-dir-weighted")
    # --- a sample of the model inputs again as another argument dtype / memory layout
    plain = {}
    for j in jobs:
        plain.setdefault((j["src"], str(j["A"])), j)
    by_src = {}
    for (src, _), j in sorted(plain.items()):
        by_src.setdefault(src, []).append(j)
    doms_of = {"model-und": ("01", "01und"), "model-dir": ("01",), "model-und-weighted": ("symw", "wund"),
               "model-dir-weighted": ("wdir",)}
    for src, cap in (("model-und", 120), ("model-dir", 80), ("model-und-weighted", 80), ("model-dir-weighted", 60)):
        for j in inputs.sample(rng, by_src.get(src, []), cap if ctx.quick else 10 * cap):
            A = np.array(j["A"], dtype=float)
            add(jobs, pairs, doms_of[src], A, src + "-variant", rc.draw_variant(rng, family(A)))
    # --- random n<=10: sparse (disconnected, isolated nodes), dense, tie-rich; structured families
    #     (paths, cycles, stars, complete, bipartite, caterpillars, rings of cliques, equal/unequal
    #     components, isolated nodes) undirected and oriented; density, isolation, weight set, dtype
    #     and layout are independent draws
    nrand = 60 if ctx.quick else 1500
    for k in range(nrand):
        n = rng.randint(6, 10)
        p = rng.choice([0.1, 0.2, 0.35, 0.6, 0.9])
        U = inputs.rand_graph(rng, n, p, und=True)
        D = inputs.rand_graph(rng, n, p / rng.choice([1, 1, 2]), und=False)
        if rng.random() < 0.2:                # an isolated node
            v = rng.randrange(n)
            U[v, :] = 0; U[:, v] = 0; D[v, :] = 0; D[:, v] = 0
        inputs_k = [(U, D, "random")]
        if rng.random() < 0.6:
            name, m, edges = rc.structured_support(rng, 5, 10)
            inputs_k.append((inputs.mat_from_edges(m, edges, und=True),
                             inputs.mat_from_edges(m, rc.orient(rng, edges), und=False), "struct-" + name))
        for U, D, src in inputs_k:
            dv = lambda M: rc.draw_variant(rng, family(M), p_plain=0.4)
            add(jobs, pairs, ("01", "01und"), U, src + "-und", dv(U))
            add(jobs, pairs, ("01",), D, src + "-dir", dv(D))
            if U.any():
                W = weigh(rng, U, rng.choice(WSETS), True)
                add(jobs, pairs, ("symw", "wund"), W, src + "-und-weighted", dv(W))
            if D.any():
                W = weigh(rng, D, rng.choice([INTW, INTW, [2], [1, 3]]), False)
                add(jobs, pairs, ("wdir",), W, src + "-dir-weighted", dv(W))
    return jobs


BAD_SKIPS = ("skip:unknown_pair", "skip:outside_domain", "skip:second_input_not_binarisation",
             "skip:kind_mismatch", "skip:unknown_property")


def run(ctx):
    tag = "" if ctx.quick else "_thorough"
    ctx.mc("MC_Relations.tla", "MC_Relations_c10%s.cfg" % tag)
    ctx.mc("MC_RelationsL0.tla", "MC_RelationsL0%s.cfg" % tag)
    pairs = spec_pairs(ctx)
    jobs = build_jobs(ctx, pairs)
    recs = pool.run_jobs(__name__, jobs)
    verdicts = ctx.validate(*rc.TRACE, recs, tag="c10")
    bad = [(j["fn"], v[0]) for j, v in zip(jobs, verdicts) if v[0] in BAD_SKIPS]
    if bad:
        raise core.MachineryError("harness produced records outside the spec's table/domains: %s" % bad[:5])
    ctx.judge(jobs, rc.tag_failures(ctx, jobs, recs, verdicts), verdicts, what=rc.describe)
    ctx.extra["verdict_counts"] = rc.count_verdicts(recs, verdicts)
    ctx.extra["argument_variants"] = rc.variant_counts(jobs)
    rc.note_never_judged(ctx, recs, verdicts)
    seen, per_pair = set(), {}
    for j, r, v in zip(jobs, recs, verdicts):
        if not v[0].startswith("skip:") and any(x not in (0, core_nan()) for x in r.get("out1", [])):
            seen.add((r["fn"], str(r["A"])))
        per_pair[r["fn"]] = per_pair.get(r["fn"], 0) + 1
    ctx.nontrivial = len(seen)
    ctx.exhaustive = True
    ctx.extra["pairs"] = per_pair
    ctx.rule = ("%d pairs of spec/Relations.tla!C10Pairs, each evaluated on: every 0/1 undirected graph "
                "n<=5 and 0/1 digraph n<=4 (TLC-enumerated; digraphs n=4 %s), the same supports with "
                "integer and (0,1] weights for the symmetric / weight-ignoring pairs, a sample of these again "
                "as another argument dtype (bool/int32/int64/uint8/float32, each member of a pair handed what "
                "its routine's domain allows) and memory layout (Fortran, transposed, window, strided), seeded "
                "random n in 6..10 (sparse/disconnected/isolated node/dense) and structured families (paths, "
                "cycles, stars, complete, bipartite, caterpillars, rings of cliques, equal/unequal components; "
                "also oriented) with weight sets incl. single values, all choices RNG-drawn; non-trivial = distinct (pair, input) "
                "judged (not skipped) whose first output has a nonzero entry"
                % (len(pairs), "sampled" if ctx.quick else "all"))
    k = next((i for i, j in enumerate(jobs) if j["src"].endswith("-und-weighted") and j["src"][:5] != "model"), 0)
    ctx.add_sample("model-input", dict(job=jobs[40], record=recs[40], verdict=verdicts[40]))
    ctx.add_sample("random-input", dict(job=jobs[k], record=recs[k], verdict=verdicts[k]))
    ctx.assumptions += [
        "TLC evaluates the definitions of spec/Relations.tla correctly",
        "outputs are compared after encoding: integers exactly, reals as round(x*10^6) within +-2",
        "weights are integers 1..3 or k/1000 in (0,1] (lossless encoding of the zero pattern/symmetry)",
        "a pair whose two members raise the same exception is skipped (nothing is returned to compare); "
        "assortativity is skipped where it is 0/0 (all edge-end degrees equal)",
        "efficiency_wei(local='original') is documented NOT to generalise the binary variant and is not paired",
    ]
    return ctx.finish()


def core_nan():
    from .. import encode
    return encode.NAN


def replay(ctx, rp):
    job = rp["job"]
    recs = pool.run_jobs(__name__, [job])
    verdicts = ctx.validate(*rc.TRACE, recs, tag="c10")
    core.log("replay verdict:", verdicts[0])
    core.log("  " + rc.describe(job, recs[0], verdicts[0][0]))
    ctx.judge([job], recs, verdicts, what=rc.describe)
    return ctx.finish()
