"""C14 - partition-consuming functions depend on the partition, not on label values.

mc:       spec/MC_Relations.tla, modes relabel/pair/triple: TLC enumerates all 52 partitions of
          5 nodes x all injective renamings into the pool {-3,0,1,2,7,100} (= all 7776 label
          vectors) and proves SamePartition(c, rho o c), the Relabel relation, the np.unique
          canonicalisation lemma; SamePartition characterised (canonical form, block sets,
          joint labelling) on all pairs, and an equivalence on all triples.
gen:      spec/GenPartitions.tla dumps the (partition, renaming) items; they are run through
          the real code on small weighted / directed / signed networks.
validate: spec/Trace_Relations.tla: RelabelInvariant, PDSymmetric, VInIn01, VIZeroIffSame,
          MIOneIffSame, Ci2lsLs2ciInverseUpToRenaming.
"""
import random
import re
import time

import numpy as np

from .. import core, encode, inputs, pool
from . import rel_common as rc

POOL = [-3, 0, 1, 2, 7, 100]

# fn -> (network type, kind)
QT = ["sta", "pos", "smp", "gja", "neg"]
FNS = {
    "participation_coef": "und", "participation_coef[in]": "dir", "participation_coef[out]": "dir",
    "participation_coef_sign": "sign", "diversity_coef_sign": "sign",
    "module_degree_zscore[0]": "und", "module_degree_zscore[1]": "dir",
    "module_degree_zscore[2]": "dir", "module_degree_zscore[3]": "dir",
    "gateway_coef_sign[degree]": "sign", "gateway_coef_sign[betweenness]": "sign",
    "modularity_und[kci]": "und", "modularity_dir[kci]": "dir",
}
for _q in QT:
    FNS["modularity_und_sign[%s]" % _q] = "sign"
INT_FNS = ("agreement", "agreement[buffsz=2]")


def labels(c, var=None):
    """the affiliation vector as the code sees it.  var = (dtype, scale, layout): labels are handed
    over as int64/int32/float64 (files written by other tools hold them as floats), multiplied by
    `scale` (0.5: fractional labels - an injective renaming of what the record holds, so the
    spec's relabelling relation on the integer labels still describes the call), contiguous or
    as every second element of a larger vector."""
    dtype, scale, layout = var or ("int64", 1, "C")
    if scale == "mid":
        # (seed round 7) another injective, order-preserving renaming: the smallest label becomes 1, the
        # largest k (the number of distinct labels), the others rank + 1/4 - a vector that passes a
        # "labels already are 1..k" test on its extremes although its middle labels are fractional
        u = sorted(set(c))
        ren = {x: (1.0 if i == 0 else float(len(u)) if i == len(u) - 1 else i + 1.25) for i, x in enumerate(u)}
        v = np.array([ren[x] for x in c], dtype=float)
    else:
        v = np.array(c, dtype=float) * scale
    out = v.astype(dtype)
    if not np.array_equal(out.astype(float), v):
        raise core.MachineryError("lossy cast of a label vector to %s" % dtype)
    if layout == "stride":
        big = np.zeros(2 * len(out), dtype=out.dtype)
        big[::2] = out
        return big[::2]
    return out


def _call(fn, W, cs, var=None, opt=None):
    """-> (numeric output, list of partition-valued outputs)"""
    import bct
    opt = opt or {}
    c = [labels(x, var) for x in cs]
    arg = fn[fn.index("[") + 1:-1] if "[" in fn else None
    base = fn.split("[")[0]
    if base == "participation_coef":
        return bct.participation_coef(W, c[0], arg or "undirected"), []
    if base == "participation_coef_sign":
        return bct.participation_coef_sign(W, c[0]), []
    if base == "diversity_coef_sign":
        return bct.diversity_coef_sign(W, c[0]), []
    if base == "module_degree_zscore":
        return bct.module_degree_zscore(W, c[0], int(arg)), []
    if base == "gateway_coef_sign":
        return bct.gateway_coef_sign(W, c[0], arg), []
    if base == "modularity_und":
        ci, q = bct.modularity_und(W, opt.get("gamma", 1), c[0])
        return q, [ci]
    if base == "modularity_dir":
        ci, q = bct.modularity_dir(W, opt.get("gamma", 1), c[0])
        return q, [ci]
    if base == "modularity_und_sign":
        ci, q = bct.modularity_und_sign(W, c[0], arg)
        return q, [ci]
    if base == "partition_distance":
        return bct.partition_distance(c[0], c[1]), []
    if base == "agreement":
        ci = np.array(c).T
        if opt.get("fortran"):
            ci = np.asfortranarray(ci)
        return (bct.agreement(ci, buffsz=2) if arg else bct.agreement(ci)), []
    raise core.MachineryError("no runner for " + fn)


def _readback(p, scale):
    """a returned partition is read back in the record's label units (see `labels`) when it is
    expressed in the caller's labels (modularity_und/_dir return kci itself), and as it is when
    it is not (modularity_und_sign returns ranks 1..k): either map is injective on the vector, and
    the spec reads a partition-valued output only up to renaming (SamePartition)"""
    p = np.asarray(p, dtype=float)
    if scale == "mid":                 # labels 1, rank + 1/4, k: four times the label is an injective integer code
        return encode.vec_int(p * 4)
    v = p / scale
    return encode.vec_int(v if np.all(v == np.round(v)) else p)


def _one(fn, mkW, cs, kind, var=None, opt=None):
    holder = {}

    scale = (var or ("int64", 1, "C"))[1]

    def thunk():
        out, pouts = _call(fn, mkW(), cs, var, opt)
        holder["p"] = [_readback(p, scale) for p in pouts]
        return out
    out, _shape, raised = rc.call2(thunk, kind)
    return out, holder.get("p", []), raised


def _sparse(W):
    """a large network travels in the job as its non-zero entries"""
    W = np.asarray(W)
    i, j = np.nonzero(W)
    return dict(n=len(W), ijw=[[int(a), int(b), encode.e_int(W[a, b])] for a, b in zip(i, j)])


def _dense(W):
    if not isinstance(W, dict):
        return np.array(W, dtype=float)
    A = np.zeros((W["n"], W["n"]))
    for i, j, w in W["ijw"]:
        A[i, j] = w
    return A


def _ls1(ls):
    return [[int(v) + 1 for v in m] for m in ls]


def _var(job, key):
    v = job.get(key)
    return tuple(v) if v else None


def exec_job(job):
    import bct
    rel = job["rel"]
    if rel == "relabel":
        fn = job["fn"]
        kind = "int" if fn in INT_FNS else "real"
        W0 = _dense(job["W"]) if job.get("W") is not None else None
        # the network as another argument dtype / memory layout (a fresh array per call)
        mkW = (lambda: None) if W0 is None else \
            (lambda: rc.as_variant(W0, job.get("dtype", "float64"), job.get("layout", "C")))
        mkW()
        for c in job["cs1"]:
            labels(c, _var(job, "civar1"))
        for c in job["cs2"]:
            labels(c, _var(job, "civar2"))
        rec = dict(prop="C14", rel=rel, fn=fn, n=len(job["cs1"][0]), cs1=job["cs1"], cs2=job["cs2"])
        rec["out1"], rec["pout1"], rec["raised1"] = _one(fn, mkW, job["cs1"], kind, _var(job, "civar1"), job.get("opt"))
        rec["out2"], rec["pout2"], rec["raised2"] = _one(fn, mkW, job["cs2"], kind, _var(job, "civar2"), job.get("opt"))
        return rec
    if rel == "pdist":
        cx, cy = labels(job["cx"], _var(job, "civar1")), labels(job["cy"], _var(job, "civar2"))
        rec = dict(prop="C14", rel=rel, fn="partition_distance", n=len(cx), cx=job["cx"], cy=job["cy"],
                   vxy=0, mxy=0, vyx=0, myx=0, raised="")
        try:
            with np.errstate(all="ignore"):
                v1, m1 = bct.partition_distance(cx.copy(), cy.copy())
                v2, m2 = bct.partition_distance(cy.copy(), cx.copy())
            rec.update(vxy=encode.e_q(v1), mxy=encode.e_q(m1), vyx=encode.e_q(v2), myx=encode.e_q(m2))
        except Exception as e:                   # noqa: BLE001
            rec["raised"] = encode.exc_name(e)
        return rec
    if rel == "ci2ls":
        idt = (job.get("civar1") or ["int64"])[0]
        idt = idt if idt.startswith("int") else "int64"        # ci2ls indexes with the labels
        ci, ci2 = np.array(job["ci"], dtype=idt), np.array(job["ci2"], dtype=idt)
        lsin = [list(m) for m in job["lsin"]]          # 0-based node ids, as the code expects
        rec = dict(prop="C14", rel=rel, fn="ci2ls~ls2ci", n=len(ci), ci=job["ci"], ci2=job["ci2"],
                   lsin=_ls1(lsin), ls=[], ls2=[], back=[], back0=[], ciofls=[], ciofls0=[],
                   lsback=[], raised="")
        try:
            ls = bct.ci2ls(ci.copy())
            rec["ls"] = _ls1(ls)
            rec["ls2"] = _ls1(bct.ci2ls(ci2.copy()))
            rec["back"] = encode.vec_int(bct.ls2ci(ls))
            rec["back0"] = encode.vec_int(bct.ls2ci(ls, zeroindexed=True))
            c1 = bct.ls2ci(lsin)
            rec["ciofls"] = encode.vec_int(c1)
            rec["ciofls0"] = encode.vec_int(bct.ls2ci(lsin, zeroindexed=True))
            rec["lsback"] = _ls1(bct.ci2ls(np.array(c1)))
        except Exception as e:                   # noqa: BLE001
            rec["raised"] = encode.exc_name(e)
        return rec
    raise core.MachineryError("unknown job relation %r" % rel)


# ------------------------------------------------------------------- inputs
def network(rng, n, typ, dense=True):
    p = rng.choice([0.6, 0.8, 1.0]) if dense else rng.choice([0.25, 0.4, 0.6])
    if typ == "und":
        return inputs.rand_graph(rng, n, p, und=True, wmax=3)
    if typ == "dir":
        return inputs.rand_graph(rng, n, p, und=False, wmax=3)
    # the signed routines are documented for undirected networks; what they compute (row sums per
    # module) is defined for any matrix and must not depend on the label names there either: one
    # signed network in four is directed
    return inputs.rand_graph(rng, n, p, und=rng.random() >= 0.25, wmax=3, signed=True)


def structured_network(rng, typ, nmin=6, nmax=10):
    """(n, W): a structured support (rel_common.structured_support: paths, stars, rings of cliques,
    bipartite, several components, isolated nodes ...) with weights from a drawn set (single
    value = every weight ties), oriented for 'dir', random signs for 'sign'"""
    name, n, edges = rc.structured_support(rng, nmin, nmax)
    ws = rng.choice([[1, 2, 3], [1], [2], [1, 3]])
    und = typ != "dir"
    if not und:
        edges = rc.orient(rng, edges)
    w = [rng.choice(ws) * (rng.choice([1, -1]) if typ == "sign" else 1) for _ in edges]
    return name, n, inputs.mat_from_edges(n, edges, und=und, w=w)


def rand_partition(rng, n):
    """shape drawn: uniform labels over k blocks, one block, all singletons, one big block plus
    singletons, consecutive equal blocks (the modules of a ring of cliques)"""
    shape = rng.choice(["uniform", "uniform", "uniform", "one", "singletons", "big+singletons", "equal"])
    if shape == "one":
        return [1] * n
    if shape == "singletons":
        c = list(range(1, n + 1))
        rng.shuffle(c)
        return c
    if shape == "big+singletons":
        m = rng.randint(2, n - 1)
        c = [1] * m + list(range(2, n - m + 2))
        rng.shuffle(c)
        return c
    if shape == "equal":
        m = rng.choice([2, 3, 4])
        return [i // m + 1 for i in range(n)]
    k = rng.randint(1, n)
    c = [rng.randint(1, k) for _ in range(n)]
    return c


def rand_relabel(rng, c):
    labs = sorted(set(c))
    style = rng.randrange(4)
    if style == 0:                                   # zero-based contiguous
        new = list(range(len(labs)))
    elif style == 1:                                 # permutation of 1..k
        new = list(range(1, len(labs) + 1))
    elif style == 2:                                 # gapped, negative, large
        new = rng.sample([-40, -3, 0, 1, 2, 7, 11, 55, 100, 1000, 65536, 999999], len(labs)) \
            if len(labs) <= 12 else list(range(5, 5 + 3 * len(labs), 3))
    else:
        new = [3 * x + 10 for x in range(len(labs))]
    rng.shuffle(new)
    m = dict(zip(labs, new))
    return [m[x] for x in c]


def blocks(c):
    d = {}
    for i, l in enumerate(c):
        d.setdefault(l, []).append(i)
    return list(d.values())


W_DTYPES = {"und": rc.DT_COUNT, "dir": rc.DT_COUNT, "sign": rc.DT_SIGNED}


def w_variant(rng, typ, p_plain):
    """network weights are small (signed) integers: int64/int32 arrays are the same matrices.
    rel_common.admissible: the consumers subtract / divide W-typed arrays and return real values
    -> no unsigned type, no float32"""
    dt, lay = rc.draw_variant(rng, W_DTYPES[typ], p_plain)
    return rc.admissible(dt), lay


def ci_variant(rng, p_plain):
    """(dtype, scale, layout) of a label vector; scale 0.5 (fractional labels) needs float64"""
    if rng.random() < p_plain:
        return ["int64", 1, "C"]
    dt = rng.choice(["int64", "int32", "float64", "float64"])
    return [dt, rng.choice([1, 1, 0.5, "mid"]) if dt == "float64" else 1, rng.choice(["C", "stride"])]


def relabel_job(rng, fn, src, W, cs1, cs2, typ=None, p_plain=0.5):
    """one f(W, c) vs f(W, rho o c) job; the two label vectors get independent dtype draws (a
    renamed vector written by another tool need not have the dtype of the original)"""
    j = dict(rel="relabel", fn=fn, src=src, W=W, cs1=cs1, cs2=cs2,
             civar1=ci_variant(rng, p_plain), civar2=ci_variant(rng, p_plain), opt={})
    if fn in INT_FNS:            # agreement: co-assignment counts; the stack of partitions as F-order
        j["opt"]["fortran"] = rng.randrange(2)
    if W is not None:
        j["dtype"], j["layout"] = w_variant(rng, typ or FNS[fn], p_plain)
    if fn.startswith(("modularity_und[", "modularity_dir[")):
        j["opt"]["gamma"] = rng.choice([1, 1, 0.5, 2])
    return j


def build_jobs(ctx):
    rng = random.Random(ctx.seed)
    jobs = []
    fns = sorted(FNS)
    sizes = [4] if ctx.quick else [4, 5]
    for n in sizes:
        items = rc.model_partitions(ctx, n)
        bank = {t: [network(rng, n, t, dense=rng.random() < 0.5).tolist() for k in range(6)]
                for t in ("und", "dir", "sign")}
        by_canon = {}
        for c, r in items:
            by_canon.setdefault(c, []).append(r)
        for i, (c, r) in enumerate(items):
            # f(W, c) vs f(W, rho o c); quick: every function with probability 1/3 per item
            for k, fn in enumerate(fns):
                if ctx.quick and rng.random() >= 1.0 / 3:
                    continue
                W = rng.choice(bank[FNS[fn]])
                jobs.append(relabel_job(rng, fn, "model", W, [list(c)], [list(r)]))
            # partition_distance of a partition with its renaming (must be VIn 0, MIn 1)
            jobs.append(dict(rel="pdist", fn="partition_distance", src="model", cx=list(c), cy=list(r),
                             civar1=ci_variant(rng, 0.5), civar2=ci_variant(rng, 0.5)))
            if not ctx.quick or rng.random() < 1.0 / 3:
                ls = blocks(c)
                rng.shuffle(ls)
                for m in ls:
                    rng.shuffle(m)
                jobs.append(dict(rel="ci2ls", fn="ci2ls~ls2ci", src="model", ci=list(r),
                                 ci2=list(rng.choice(by_canon[c])), lsin=ls,
                                 civar1=[rng.choice(["int64", "int32"]), 1, "C"]))
        # all ordered pairs of partitions, arbitrarily labelled: symmetry, zero/unit iff same,
        # and relabel invariance of partition_distance in both arguments
        canon = sorted(by_canon)
        for cx in canon:
            for cy in canon:
                for _ in range(1 if ctx.quick else 2):
                    x, y = rng.choice(by_canon[cx]), rng.choice(by_canon[cy])
                    jobs.append(dict(rel="pdist", fn="partition_distance", src="model",
                                     cx=list(x), cy=list(y),
                                     civar1=ci_variant(rng, 0.5), civar2=ci_variant(rng, 0.5)))
                    jobs.append(relabel_job(rng, "partition_distance", "model", None,
                                            [list(cx), list(cy)], [list(x), list(y)]))
        # agreement over M partitions, every column renamed independently
        for _ in range(200 if ctx.quick else 2500):
            M = rng.randint(1, 5)
            cols = [rng.choice(items) for _ in range(M)]
            for fn in INT_FNS:
                jobs.append(relabel_job(rng, fn, "model", None,
                                        [list(c) for c, _ in cols], [list(r) for _, r in cols]))
    # random larger networks (G(n,p) and structured supports) / partitions / renamings
    for t in range(60 if ctx.quick else 1200):
        nets, src = {}, "random"
        if rng.random() < 0.4:
            # the same structured support for the three network types
            st = rng.getstate()
            for typ in ("und", "dir", "sign"):
                rng.setstate(st)
                name, n, _ = rc.structured_support(rng, 6, 10)
                rng.setstate(st)
                _, _, W = structured_network(rng, typ)
                nets[typ] = W.tolist()
            src = "struct-" + name
        else:
            n = rng.randint(6, 10)
            dense = rng.random() < 0.5
            nets = {typ: network(rng, n, typ, dense=dense).tolist() for typ in ("und", "dir", "sign")}
        c = rand_partition(rng, n)
        r = rand_relabel(rng, c)
        for fn in fns:
            jobs.append(relabel_job(rng, fn, src, nets[FNS[fn]], [c], [r], p_plain=0.3))
        c2 = rand_partition(rng, n) if rng.random() < 0.75 else list(c)
        r2 = rand_relabel(rng, c2)
        jobs.append(dict(rel="pdist", fn="partition_distance", src=src, cx=r, cy=r2,
                         civar1=ci_variant(rng, 0.3), civar2=ci_variant(rng, 0.3)))
        jobs.append(relabel_job(rng, "partition_distance", src, None, [c, c2], [r, r2], p_plain=0.3))
        for fn in INT_FNS:
            jobs.append(relabel_job(rng, fn, src, None, [c, c2, c], [r, r2, c], p_plain=0.3))
        ls = blocks(c)
        rng.shuffle(ls)
        jobs.append(dict(rel="ci2ls", fn="ci2ls~ls2ci", src=src, ci=r, ci2=c, lsin=ls,
                         civar1=[rng.choice(["int64", "int32"]), 1, "C"]))
    return jobs


# ------------------------------------------------------------------- scale regime
# The exhaustive / random parts above never leave n <= 10 and k <= 10 communities.  Narrow
# integer or float types for label ranks, community counters or label values (int8, uint8, int16,
# float32, int32 ...) and label arithmetic in place of equality tests only show beyond that: this
# family visits 130..400 nodes, 2 / ~n/3 / ~n/2 / n / 127..129 / 255..257 communities, and label values
# around every type boundary, renamed by order-reversing, affine and arbitrary injective maps.
SCALE_LIMIT = 240.0                 # seconds per job (two calls; gateway_coef_sign is O(k n^2))
LABEL_MAX = 999999999               # |record label| < 10^9 (encode.e_int; TLC integers are 32-bit)
TYPE_EDGES = (2 ** 7, 2 ** 8, 2 ** 15, 2 ** 16, 2 ** 24)      # int8 uint8 int16 uint16 float32


def scale_network(rng, n, typ, support, b):
    """W on n nodes, integer weights 1..3 (random signs for 'sign'): sparse G(n,p) of mean degree
    5..12 (many neighbours in many different communities) or a ring of n/2 two-cliques with random
    chords; on top, nodes of the same block of `b` are joined with a drawn probability (about <= 6
    such neighbours per node) - with hundreds of small communities a network drawn independently
    of the partition has no within-module connection and every within-module statistic is 0"""
    rs = np.random.RandomState(rng.getrandbits(32))
    und = typ != "dir"
    if support == "gnp":
        M = rs.rand(n, n) < rng.choice([5.0, 8.0, 12.0]) / n
    else:
        M = np.zeros((n, n), dtype=bool)
        for i, j in rc.s_clique_ring(n // 2, 2) + [tuple(rng.sample(range(n), 2)) for _ in range(n)]:
            if und or rng.random() < 0.7:
                M[i, j] = True
            if und or rng.random() < 0.7:
                M[j, i] = True
    bb = np.array(b)
    size = np.bincount(bb)[bb].astype(float)
    q = np.minimum(rng.choice([0.3, 0.6, 0.9]), 6.0 / size)
    M = M | ((bb[:, None] == bb[None, :]) & (rs.rand(n, n) < q[:, None]))
    W = M * rs.randint(1, 4, (n, n))
    if typ == "sign":
        W = W * np.where(rs.rand(n, n) < 0.4, -1, 1)
    if und:
        W = np.triu(W, 1)
        W = W + W.T
    np.fill_diagonal(W, 0)
    return W.astype(float)


def scale_shapes(n):
    ks = [k for k in (127, 128, 129, 255, 256, 257) if k <= n]
    return ["two", "pairs", "triples", "singletons", "near-singletons", "consecutive-pairs"] + ["k=%d" % k for k in ks]


def scale_partition(rng, n, shape):
    """block index (0-based, arbitrary) per node"""
    nodes = list(range(n))
    rng.shuffle(nodes)
    b = [0] * n
    if shape == "two":
        m = rng.randint(1, n - 1)
        for v in nodes[:m]:
            b[v] = 1
    elif shape in ("pairs", "triples"):              # ~n/2 (~n/3) communities: a random matching
        for k, v in enumerate(nodes):
            b[v] = k // (2 if shape == "pairs" else 3)
    elif shape == "consecutive-pairs":               # the two-cliques of the ring
        b = [i // 2 for i in range(n)]
    elif shape == "singletons":
        b = list(range(n))
    elif shape == "near-singletons":                 # n-d communities: d nodes join another node
        d = rng.randint(3, 15)
        for k, v in enumerate(nodes):
            b[v] = k if k < n - d else rng.randrange(n - d)
    else:                                            # exactly k communities, every one used
        k = int(shape[2:])
        for i, v in enumerate(nodes):
            b[v] = i if i < k else rng.randrange(k)
    return b


SCALE_STYLES = ("natural", "zero-based", "reversed", "affine+", "affine-", "negative", "gapped", "large",
                "type-edge", "type-edge-desc")


def scale_labels(rng, k, style):
    """k distinct integer labels (|l| <= LABEL_MAX); label[r] is given to block r, blocks being numbered
    at random - except for 'natural'/'reversed'/'affine*', which are monotone in the block number so
    that natural -> reversed is THE order-reversing map and natural -> affine+ an increasing one"""
    if style == "natural":
        return list(range(1, k + 1))
    if style == "zero-based":
        new = list(range(k))
    elif style == "reversed":
        return list(range(k, 0, -1))
    elif style == "affine+":
        a, c = rng.choice([2, 3, 7, 1000]), rng.choice([-5000, 0, 1, 10 ** 6])
        return [a * x + c for x in range(1, k + 1)]
    elif style == "affine-":
        a, c = rng.choice([-1, -3, -11]), rng.choice([0, -7, 10 ** 6])
        return [a * x + c for x in range(1, k + 1)]
    elif style == "negative":
        new = rng.sample(range(-10 ** 6, 0), k)
    elif style == "gapped":
        new = rng.sample(range(-10 ** 5, 10 ** 5), k)
    elif style == "large":
        new = rng.sample(range(LABEL_MAX - 10 ** 6, LABEL_MAX + 1), k)
    else:                                            # consecutive labels straddling a type boundary
        e = rng.choice(TYPE_EDGES) * rng.choice([1, 1, -1])
        lo = e - rng.randint(1, k - 1)
        new = list(range(lo, lo + k))
        if style == "type-edge-desc":
            return new[::-1]
    rng.shuffle(new)
    return new


def scale_civar(rng, cs):
    """(dtype, scale, layout) as in `labels`; additionally scale 4096: the code sees 4096 x the
    record's labels (an injective renaming of them; up to 4.1e12, beyond int32, exact in float64)"""
    m = max(abs(x) for c in cs for x in c)
    if m > LABEL_MAX:
        raise core.MachineryError("scale family: label %d does not fit the record encoding" % m)
    r = rng.random()
    if r < 0.4:
        return ["int64", 1, "C"]
    if r < 0.55:
        return ["int64", 4096, rng.choice(["C", "stride"])]
    dt = rng.choice(["int64", "int32", "float64", "float64"])
    return [dt, rng.choice([1, 0.5, 4096]) if dt == "float64" else 1, rng.choice(["C", "stride"])]


def scale_jobs(ctx):
    rng = random.Random(1000003 * ctx.seed + 14)
    fns = sorted(FNS)
    jobs = []
    if ctx.quick:
        plan = [(rng.randint(130, 180), "gnp"), (rng.randint(384, 400), rng.choice(["gnp", "pair-ring"]))]
    else:
        plan = [(rng.randint(130, 160), "gnp"), (rng.randint(130, 256), "pair-ring"),
                (rng.randint(161, 256), "gnp"), (rng.randint(257, 290), "gnp"),
                (rng.randint(257, 320), "pair-ring"), (rng.randint(384, 400), "gnp")]
    for n, support in plan:
        parts = []
        for shape in scale_shapes(n):
            b = scale_partition(rng, n, shape)
            perm = sorted(set(b))                    # blocks numbered 0..k-1 at random
            rng.shuffle(perm)
            dense = {x: i for i, x in enumerate(perm)}
            b = [dense[x] for x in b]
            nets = {typ: _sparse(scale_network(rng, n, typ, support, b)) for typ in ("und", "dir", "sign")}
            parts.append((shape, b, len(perm), nets))
        top = 256 if n >= 256 else 128               # the largest regime of community counts this n allows
        top_parts = [q for q in parts if q[2] >= top]
        # >= 127 communities of two or more nodes on average (n >= 254): within-module statistics are
        # not trivially zero there; below that size, the community counts next to a type boundary
        chunky_parts = [q for q in parts if 127 <= q[2] <= n // 2] or [q for q in parts if q[0].startswith("k=")]

        def labelling(part, style):
            lab = scale_labels(rng, part[2], style)
            return [lab[x] for x in part[1]]

        def src_of(part):
            return "scale-%s-n%d-%s" % (support, n, part[0])

        def one(fn, part, s1, s2):
            c1, c2 = labelling(part, s1), labelling(part, s2)
            j = relabel_job(rng, fn, src_of(part), part[3][FNS[fn]], [c1], [c2], p_plain=0.3)
            j["civar1"], j["civar2"] = scale_civar(rng, [c1]), scale_civar(rng, [c2])
            j["styles"] = [s1, s2]
            jobs.append(j)

        def drawn_pair():
            return rng.choice([("natural", "affine+"), ("natural", "affine-"),
                               (rng.choice(SCALE_STYLES), rng.choice(SCALE_STYLES)),
                               (rng.choice(SCALE_STYLES), rng.choice(SCALE_STYLES))])
        for fn in fns:
            if ctx.quick:
                # per routine and n: the order-reversing renaming and a random-order renaming of a
                # partition from the top regime, an order-changing renaming of a partition with many
                # communities of several nodes, and a drawn renaming of a drawn partition
                one(fn, rng.choice(top_parts), "natural", "reversed")
                if n > 200 and fn.startswith("gateway_coef_sign"):      # seconds per call at this size
                    continue
                # (reversal keeps every difference of two ranks up to sign, hence is blind to ranks
                # aliasing modulo 2^8 / 2^16: also a renaming in random order)
                one(fn, rng.choice(top_parts), "natural", rng.choice(["zero-based", "negative", "gapped", "large"]))
                one(fn, rng.choice(chunky_parts), *rng.choice([("natural", "reversed"), ("reversed", "gapped"),
                                                             ("zero-based", "negative")]))
                one(fn, rng.choice(parts), *drawn_pair())
                continue
            heavy = fn.startswith("gateway_coef_sign")          # O(k n^2) python loop per call
            for part in (rng.sample(parts, 3) if heavy and n > 256 else parts):
                todo = [("natural", "reversed"), ("natural", rng.choice(["affine+", "affine-"]))] + \
                       [drawn_pair() for _ in range(3)]
                for s1, s2 in (rng.sample(todo, 1 if n > 256 else 2) if heavy else todo):
                    one(fn, part, s1, s2)
        for part in parts:
            # partition_distance: a partition against its renaming, against a one-node move of
            # it, against another shape; ci2ls / ls2ci; agreement (n x n output: smaller n only)
            src = src_of(part)
            c1, c2 = labelling(part, "natural"), labelling(part, rng.choice(SCALE_STYLES[2:]))
            moved = list(c2)
            v, u = rng.sample(range(n), 2)
            fresh = max(moved) + 1 if max(moved) < LABEL_MAX else min(moved) - 1
            moved[v] = moved[u] if moved[v] != moved[u] else fresh
            other = scale_partition(rng, n, rng.choice(scale_shapes(n)))
            other = [x + 1 for x in other]
            for cx, cy in ((c1, c2), (c1, moved), (c2, other), (c2, c2)):
                jobs.append(dict(rel="pdist", fn="partition_distance", src=src, cx=cx, cy=cy,
                                 civar1=scale_civar(rng, [cx]), civar2=scale_civar(rng, [cy])))
            o2 = labelling(part, rng.choice(SCALE_STYLES))
            j = relabel_job(rng, "partition_distance", src, None, [c1, other], [c2, other], p_plain=0.3)
            j["civar1"], j["civar2"] = scale_civar(rng, [c1, other]), scale_civar(rng, [c2, other])
            jobs.append(j)
            ls = blocks(c1)
            rng.shuffle(ls)
            for m in ls:
                rng.shuffle(m)
            jobs.append(dict(rel="ci2ls", fn="ci2ls~ls2ci", src=src, ci=c2, ci2=o2, lsin=ls,
                             civar1=[rng.choice(["int64", "int32"]), 1, "C"]))
            if n <= 180 and (not ctx.quick or part[2] >= 127):
                for fn in INT_FNS:
                    j = relabel_job(rng, fn, src, None, [c1, other, c1], [c2, other, o2], p_plain=0.3)
                    j["civar1"], j["civar2"] = scale_civar(rng, [c1, other]), scale_civar(rng, [c2, other, o2])
                    jobs.append(j)
    return jobs


def describe(job, rec, clause):
    v = {k: job[k] for k in ("dtype", "layout", "civar1", "civar2", "opt") if job.get(k)}
    return rc.describe(job, rec, clause) + (" variants=%s" % v if v else "")


BAD_SKIPS = ("skip:unknown_function", "skip:not_a_relabelling", "skip:not_a_module_list",
             "skip:unknown_relation", "skip:unknown_property", "skip:fewer_than_two_nodes")


def run(ctx):
    ctx.mc("MC_Relations.tla", "MC_Relations_c14%s.cfg" % ("" if ctx.quick else "_thorough"))
    jobs = build_jobs(ctx)
    recs = pool.run_jobs(__name__, jobs)
    verdicts = ctx.validate(*rc.TRACE, recs, tag="c14", chunk=6000)
    # scale regime: few, large records; judged by the same clauses (they only relate the two
    # outcomes and re-check that the labellings are renamings of each other)
    t0 = time.time()
    sjobs = scale_jobs(ctx)
    srecs = pool.run_jobs(__name__, sjobs, limit=SCALE_LIMIT)
    core.log("  scale regime: %d jobs built and run in %.1fs" % (len(sjobs), time.time() - t0))
    sverdicts = ctx.validate(*rc.TRACE, srecs, tag="c14scale", chunk=800)
    ctx.extra["scale_regime"] = dict(
        jobs=len(sjobs), timeouts=sum(1 for r in srecs if r.get("timeout")),
        sources=sorted(set(j["src"] for j in sjobs)),
        networks=sorted(set(re.match(r"scale-(.*-n\d+)-", j["src"]).group(1) for j in sjobs)),
        communities=sorted(set(len(set(c)) for j in sjobs if j["rel"] == "relabel" for c in j["cs1"])))
    jobs, recs, verdicts = jobs + sjobs, recs + srecs, verdicts + sverdicts
    bad = [(j["fn"], v[0]) for j, v in zip(jobs, verdicts) if v[0] in BAD_SKIPS]
    if bad:
        raise core.MachineryError("harness produced records outside the spec's domain: %s" % bad[:5])
    ctx.judge(jobs, rc.tag_failures(ctx, jobs, recs, verdicts), verdicts, what=describe)
    ctx.extra["verdict_counts"] = rc.count_verdicts(recs, verdicts)
    ctx.extra["argument_variants"] = rc.variant_counts([j for j in jobs if j.get("W") is not None])
    rc.note_never_judged(ctx, recs, verdicts)
    seen = set()
    for j, r, v in zip(jobs, recs, verdicts):
        if v[0].startswith("skip:"):
            continue
        if r["rel"] == "relabel" and r["cs1"] != r["cs2"] and len(set(r["cs1"][0])) >= 2:
            seen.add((r["fn"], str(j.get("W")), str(r["cs1"]), str(r["cs2"])))
        elif r["rel"] == "pdist" and len(set(r["cx"])) >= 2:
            seen.add(("pd", str(r["cx"]), str(r["cy"])))
        elif r["rel"] == "ci2ls" and len(set(r["ci"])) >= 2:
            seen.add(("ls", str(r["ci"]), str(r["lsin"])))
    ctx.nontrivial = len(seen)
    ctx.exhaustive = True
    nmax = 4 if ctx.quick else 5
    ctx.rule = ("every partition of n<=%d nodes x every injective renaming into {-3,0,1,2,7,100} "
                "(TLC-enumerated, spec/GenPartitions.tla) x %s of the %d label-consuming function variants "
                "on weighted/directed/signed networks; all ordered pairs of partitions for partition_distance; "
                "agreement over 1..5 independently renamed partitions; ci2ls/ls2ci round trips; seeded random "
                "n in 6..10 (G(n,p) and structured supports: paths, stars, rings of cliques, bipartite, several "
                "components, isolated nodes) with zero-based/permuted/gapped/negative/large labels and partition "
                "shapes incl. one block / all singletons / equal blocks; networks also as int64/int32 arrays and in "
                "other memory layouts, label vectors as int64/int32/float64 (also fractional, strided; drawn "
                "independently for the two labellings), gamma in {1/2,1,2} for modularity_*, all drawn from the "
                "seeded RNG; scale regime: %d seeded n in 130..400 (sparse G(n,p), rings of two-cliques with chords, "
                "plus planted within-module connections) x partitions with 2 / ~n/3 / ~n/2 / n-d / n / 127,128,129 / "
                "255,256,257 communities x every "
                "function variant, labellings natural -> order-reversed, -> affine (increasing and decreasing) and "
                "drawn pairs of zero-based/negative/gapped/large(~10^9)/straddling 2^7,2^8,2^15,2^16,2^24 label "
                "sets, also handed over x4096 (beyond int32); partition_distance of a partition with its renaming, "
                "with a one-node move, with another shape; non-trivial = distinct judged "
                "case with >= 2 modules and a renaming that changes the vector"
                % (nmax, "a drawn third" if ctx.quick else "all", len(FNS) + 3,
                   len(ctx.extra["scale_regime"]["networks"])))
    k = next(i for i, j in enumerate(jobs) if j["src"] == "random" and j["rel"] == "relabel")
    ctx.add_sample("model-input", dict(job=jobs[100], record=recs[100], verdict=verdicts[100]))
    ctx.add_sample("random-input", dict(job=jobs[k], record=recs[k], verdict=verdicts[k]))
    ctx.assumptions += [
        "TLC evaluates the definitions of spec/Relations.tla correctly",
        "outputs are compared after encoding: integers exactly, reals as round(x*10^6) within +-2",
        "integer weights 1..3 (signed for the _sign functions); gamma in {1/2, 1, 2} for modularity_und/_dir",
        "fractional labels are handed to the code as half the integer labels of the record (an injective renaming "
        "of them, so the record's labellings are relabellings of what the code saw)",
        "labels scaled up are handed to the code as 4096 x the integer labels of the record (again an injective "
        "renaming; record labels stay below 10^9 in magnitude because TLC integers are 32-bit)",
        "scale-regime records (n up to 400) are judged by the same clauses: they relate the two outcomes of one "
        "pair of calls and re-check co-membership of the two labellings, no expected value is computed",
        "a function that raises the same exception for both labellings is skipped (no result to compare)",
    ]
    return ctx.finish()


def replay(ctx, rp):
    job = rp["job"]
    recs = pool.run_jobs(__name__, [job], limit=SCALE_LIMIT if str(job.get("src", "")).startswith("scale") else 20.0)
    verdicts = ctx.validate(*rc.TRACE, recs, tag="c14")
    core.log("replay verdict:", verdicts[0])
    core.log("  " + rc.describe(job, recs[0], verdicts[0][0]))
    ctx.judge([job], recs, verdicts, what=describe)
    return ctx.finish()
