"""C14 - partition-consuming functions depend on the partition, not on label values.

mc:       spec/MC_Relations.tla, modes relabel/pair/triple: TLC enumerates all 52 partitions of
          5 nodes x all injective renamings into the pool {-3,0,1,2,7,100} (= all 7776 label
          vectors) and proves SamePartition(c, rho o c), the Relabel relation, the np.unique
          canonicalisation lemma; SamePartition characterised (canonical form, block sets,
          joint labelling) on all pairs, and an equivalence on all triples.
gen:      spec/GenPartitions.tla dumps the (partition, renaming) items; they are run through
          the real code on small weighted / directed / signed networks.
validate: spec/Trace_Relations.tla: RelabelInvariant, PDSymmetric, VInIn01, VIZeroIffSame,
          MIOneIffSame, Ci2lsLs2ciInverseUpToRenaming.
"""
import random

import numpy as np

from .. import core, encode, inputs, pool
from . import rel_common as rc

POOL = [-3, 0, 1, 2, 7, 100]

# fn -> (network type, kind)
QT = ["sta", "pos", "smp", "gja", "neg"]
FNS = {
    "participation_coef": "und", "participation_coef[in]": "dir", "participation_coef[out]": "dir",
    "participation_coef_sign": "sign", "diversity_coef_sign": "sign",
    "module_degree_zscore[0]": "und", "module_degree_zscore[1]": "dir",
    "module_degree_zscore[2]": "dir", "module_degree_zscore[3]": "dir",
    "gateway_coef_sign[degree]": "sign", "gateway_coef_sign[betweenness]": "sign",
    "modularity_und[kci]": "und", "modularity_dir[kci]": "dir",
}
for _q in QT:
    FNS["modularity_und_sign[%s]" % _q] = "sign"
INT_FNS = ("agreement", "agreement[buffsz=2]")


def _call(fn, W, cs):
    """-> (numeric output, list of partition-valued outputs)"""
    import bct
    c = [np.array(x, dtype=int) for x in cs]
    arg = fn[fn.index("[") + 1:-1] if "[" in fn else None
    base = fn.split("[")[0]
    if base == "participation_coef":
        return bct.participation_coef(W, c[0], arg or "undirected"), []
    if base == "participation_coef_sign":
        return bct.participation_coef_sign(W, c[0]), []
    if base == "diversity_coef_sign":
        return bct.diversity_coef_sign(W, c[0]), []
    if base == "module_degree_zscore":
        return bct.module_degree_zscore(W, c[0], int(arg)), []
    if base == "gateway_coef_sign":
        return bct.gateway_coef_sign(W, c[0], arg), []
    if base == "modularity_und":
        ci, q = bct.modularity_und(W, 1, c[0])
        return q, [ci]
    if base == "modularity_dir":
        ci, q = bct.modularity_dir(W, 1, c[0])
        return q, [ci]
    if base == "modularity_und_sign":
        ci, q = bct.modularity_und_sign(W, c[0], arg)
        return q, [ci]
    if base == "partition_distance":
        return bct.partition_distance(c[0], c[1]), []
    if base == "agreement":
        ci = np.array(c).T
        return (bct.agreement(ci, buffsz=2) if arg else bct.agreement(ci)), []
    raise core.MachineryError("no runner for " + fn)


def _one(fn, W, cs, kind):
    holder = {}

    def thunk():
        out, pouts = _call(fn, None if W is None else W.copy(), cs)
        holder["p"] = [encode.vec_int(p) for p in pouts]
        return out
    out, _shape, raised = rc.call2(thunk, kind)
    return out, holder.get("p", []), raised


def _ls1(ls):
    return [[int(v) + 1 for v in m] for m in ls]


def exec_job(job):
    import bct
    rel = job["rel"]
    if rel == "relabel":
        fn = job["fn"]
        kind = "int" if fn in INT_FNS else "real"
        W = np.array(job["W"], dtype=float) if job.get("W") is not None else None
        rec = dict(prop="C14", rel=rel, fn=fn, n=len(job["cs1"][0]), cs1=job["cs1"], cs2=job["cs2"])
        rec["out1"], rec["pout1"], rec["raised1"] = _one(fn, W, job["cs1"], kind)
        rec["out2"], rec["pout2"], rec["raised2"] = _one(fn, W, job["cs2"], kind)
        return rec
    if rel == "pdist":
        cx, cy = np.array(job["cx"], dtype=int), np.array(job["cy"], dtype=int)
        rec = dict(prop="C14", rel=rel, fn="partition_distance", n=len(cx), cx=job["cx"], cy=job["cy"],
                   vxy=0, mxy=0, vyx=0, myx=0, raised="")
        try:
            with np.errstate(all="ignore"):
                v1, m1 = bct.partition_distance(cx.copy(), cy.copy())
                v2, m2 = bct.partition_distance(cy.copy(), cx.copy())
            rec.update(vxy=encode.e_q(v1), mxy=encode.e_q(m1), vyx=encode.e_q(v2), myx=encode.e_q(m2))
        except Exception as e:                   # noqa: BLE001
            rec["raised"] = encode.exc_name(e)
        return rec
    if rel == "ci2ls":
        ci, ci2 = np.array(job["ci"], dtype=int), np.array(job["ci2"], dtype=int)
        lsin = [list(m) for m in job["lsin"]]          # 0-based node ids, as the code expects
        rec = dict(prop="C14", rel=rel, fn="ci2ls~ls2ci", n=len(ci), ci=job["ci"], ci2=job["ci2"],
                   lsin=_ls1(lsin), ls=[], ls2=[], back=[], back0=[], ciofls=[], ciofls0=[],
                   lsback=[], raised="")
        try:
            ls = bct.ci2ls(ci.copy())
            rec["ls"] = _ls1(ls)
            rec["ls2"] = _ls1(bct.ci2ls(ci2.copy()))
            rec["back"] = encode.vec_int(bct.ls2ci(ls))
            rec["back0"] = encode.vec_int(bct.ls2ci(ls, zeroindexed=True))
            c1 = bct.ls2ci(lsin)
            rec["ciofls"] = encode.vec_int(c1)
            rec["ciofls0"] = encode.vec_int(bct.ls2ci(lsin, zeroindexed=True))
            rec["lsback"] = _ls1(bct.ci2ls(np.array(c1)))
        except Exception as e:                   # noqa: BLE001
            rec["raised"] = encode.exc_name(e)
        return rec
    raise core.MachineryError("unknown job relation %r" % rel)


# ------------------------------------------------------------------- inputs
def network(rng, n, typ, dense=True):
    p = rng.choice([0.6, 0.8, 1.0]) if dense else rng.choice([0.25, 0.4, 0.6])
    if typ == "und":
        return inputs.rand_graph(rng, n, p, und=True, wmax=3)
    if typ == "dir":
        return inputs.rand_graph(rng, n, p, und=False, wmax=3)
    return inputs.rand_graph(rng, n, p, und=True, wmax=3, signed=True)


def rand_partition(rng, n):
    k = rng.randint(1, n)
    c = [rng.randint(1, k) for _ in range(n)]
    return c


def rand_relabel(rng, c):
    labs = sorted(set(c))
    style = rng.randrange(4)
    if style == 0:                                   # zero-based contiguous
        new = list(range(len(labs)))
    elif style == 1:                                 # permutation of 1..k
        new = list(range(1, len(labs) + 1))
    elif style == 2:                                 # gapped, negative, large
        new = rng.sample([-40, -3, 0, 1, 2, 7, 11, 55, 100, 1000, 65536, 999999], len(labs)) \
            if len(labs) <= 12 else list(range(5, 5 + 3 * len(labs), 3))
    else:
        new = [3 * x + 10 for x in range(len(labs))]
    rng.shuffle(new)
    m = dict(zip(labs, new))
    return [m[x] for x in c]


def blocks(c):
    d = {}
    for i, l in enumerate(c):
        d.setdefault(l, []).append(i)
    return list(d.values())


def build_jobs(ctx):
    rng = random.Random(ctx.seed)
    jobs = []
    fns = sorted(FNS)
    sizes = [4] if ctx.quick else [4, 5]
    for n in sizes:
        items = rc.model_partitions(ctx, n)
        bank = {t: [network(rng, n, t, dense=(k % 2 == 0)).tolist() for k in range(6)]
                for t in ("und", "dir", "sign")}
        by_canon = {}
        for c, r in items:
            by_canon.setdefault(c, []).append(r)
        for i, (c, r) in enumerate(items):
            # f(W, c) vs f(W, rho o c); quick: a rotating third of the functions per item
            for k, fn in enumerate(fns):
                if ctx.quick and (i + k) % 3:
                    continue
                W = bank[FNS[fn]][(i + k) % 6]
                jobs.append(dict(rel="relabel", fn=fn, src="model", W=W, cs1=[list(c)], cs2=[list(r)]))
            # partition_distance of a partition with its renaming (must be VIn 0, MIn 1)
            jobs.append(dict(rel="pdist", fn="partition_distance", src="model", cx=list(c), cy=list(r)))
            if not ctx.quick or i % 3 == 0:
                ls = blocks(c)
                rng.shuffle(ls)
                for m in ls:
                    rng.shuffle(m)
                jobs.append(dict(rel="ci2ls", fn="ci2ls~ls2ci", src="model", ci=list(r),
                                 ci2=list(rng.choice(by_canon[c])), lsin=ls))
        # all ordered pairs of partitions, arbitrarily labelled: symmetry, zero/unit iff same,
        # and relabel invariance of partition_distance in both arguments
        canon = sorted(by_canon)
        for cx in canon:
            for cy in canon:
                for _ in range(1 if ctx.quick else 2):
                    x, y = rng.choice(by_canon[cx]), rng.choice(by_canon[cy])
                    jobs.append(dict(rel="pdist", fn="partition_distance", src="model",
                                     cx=list(x), cy=list(y)))
                    jobs.append(dict(rel="relabel", fn="partition_distance", src="model", W=None,
                                     cs1=[list(cx), list(cy)], cs2=[list(x), list(y)]))
        # agreement over M partitions, every column renamed independently
        for _ in range(200 if ctx.quick else 2500):
            M = rng.randint(1, 5)
            cols = [rng.choice(items) for _ in range(M)]
            for fn in INT_FNS:
                jobs.append(dict(rel="relabel", fn=fn, src="model", W=None,
                                 cs1=[list(c) for c, _ in cols], cs2=[list(r) for _, r in cols]))
    # random larger networks / partitions / renamings
    for t in range(60 if ctx.quick else 1200):
        n = rng.randint(6, 10)
        c = rand_partition(rng, n)
        r = rand_relabel(rng, c)
        nets = {typ: network(rng, n, typ, dense=bool(t % 2)).tolist() for typ in ("und", "dir", "sign")}
        for fn in fns:
            jobs.append(dict(rel="relabel", fn=fn, src="random", W=nets[FNS[fn]], cs1=[c], cs2=[r]))
        c2 = rand_partition(rng, n) if t % 4 else list(c)
        r2 = rand_relabel(rng, c2)
        jobs.append(dict(rel="pdist", fn="partition_distance", src="random", cx=r, cy=r2))
        jobs.append(dict(rel="relabel", fn="partition_distance", src="random", W=None,
                         cs1=[c, c2], cs2=[r, r2]))
        for fn in INT_FNS:
            jobs.append(dict(rel="relabel", fn=fn, src="random", W=None, cs1=[c, c2, c], cs2=[r, r2, c]))
        ls = blocks(c)
        rng.shuffle(ls)
        jobs.append(dict(rel="ci2ls", fn="ci2ls~ls2ci", src="random", ci=r, ci2=c, lsin=ls))
    return jobs


BAD_SKIPS = ("skip:unknown_function", "skip:not_a_relabelling", "skip:not_a_module_list",
             "skip:unknown_relation", "skip:unknown_property", "skip:fewer_than_two_nodes")


def run(ctx):
    ctx.mc("MC_Relations.tla", "MC_Relations_c14%s.cfg" % ("" if ctx.quick else "_thorough"))
    jobs = build_jobs(ctx)
    recs = pool.run_jobs(__name__, jobs)
    verdicts = ctx.validate(*rc.TRACE, recs, tag="c14", chunk=6000)
    bad = [(j["fn"], v[0]) for j, v in zip(jobs, verdicts) if v[0] in BAD_SKIPS]
    if bad:
        raise core.MachineryError("harness produced records outside the spec's domain: %s" % bad[:5])
    ctx.judge(jobs, recs, verdicts, what=rc.describe)
    ctx.extra["verdict_counts"] = rc.count_verdicts(recs, verdicts)
    rc.note_never_judged(ctx, recs, verdicts)
    seen = set()
    for j, r, v in zip(jobs, recs, verdicts):
        if v[0].startswith("skip:"):
            continue
        if r["rel"] == "relabel" and r["cs1"] != r["cs2"] and len(set(r["cs1"][0])) >= 2:
            seen.add((r["fn"], str(j.get("W")), str(r["cs1"]), str(r["cs2"])))
        elif r["rel"] == "pdist" and len(set(r["cx"])) >= 2:
            seen.add(("pd", str(r["cx"]), str(r["cy"])))
        elif r["rel"] == "ci2ls" and len(set(r["ci"])) >= 2:
            seen.add(("ls", str(r["ci"]), str(r["lsin"])))
    ctx.nontrivial = len(seen)
    ctx.exhaustive = True
    nmax = 4 if ctx.quick else 5
    ctx.rule = ("every partition of n<=%d nodes x every injective renaming into {-3,0,1,2,7,100} "
                "(TLC-enumerated, spec/GenPartitions.tla) x %s of the %d label-consuming function variants "
                "on weighted/directed/signed networks; all ordered pairs of partitions for partition_distance; "
                "agreement over 1..5 independently renamed partitions; ci2ls/ls2ci round trips; seeded random "
                "n in 6..10 with zero-based/permuted/gapped/negative/large labels; non-trivial = distinct judged "
                "case with >= 2 modules and a renaming that changes the vector"
                % (nmax, "a rotating third" if ctx.quick else "all", len(FNS) + 3))
    k = next(i for i, j in enumerate(jobs) if j["src"] == "random" and j["rel"] == "relabel")
    ctx.add_sample("model-input", dict(job=jobs[100], record=recs[100], verdict=verdicts[100]))
    ctx.add_sample("random-input", dict(job=jobs[k], record=recs[k], verdict=verdicts[k]))
    ctx.assumptions += [
        "TLC evaluates the definitions of spec/Relations.tla correctly",
        "outputs are compared after encoding: integers exactly, reals as round(x*10^6) within +-2",
        "integer weights 1..3 (signed for the _sign functions); gamma = 1 for modularity_*",
        "a function that raises the same exception for both labellings is skipped (no result to compare)",
    ]
    return ctx.finish()


def replay(ctx, rp):
    job = rp["job"]
    recs = pool.run_jobs(__name__, [job])
    verdicts = ctx.validate(*rc.TRACE, recs, tag="c14")
    core.log("replay verdict:", verdicts[0])
    core.log("  " + rc.describe(job, recs[0], verdicts[0][0]))
    ctx.judge([job], recs, verdicts, what=rc.describe)
    return ctx.finish()
