"""C14 - partition-consuming functions depend on the partition, not on label values.

mc:       spec/MC_Relations.tla, modes relabel/pair/triple: TLC enumerates all 52 partitions of
          5 nodes x all injective renamings into the pool {-3,0,1,2,7,100} (= all 7776 label
          vectors) and proves SamePartition(c, rho o c), the Relabel relation, the np.unique
          canonicalisation lemma; SamePartition characterised (canonical form, block sets,
          joint labelling) on all pairs, and an equivalence on all triples.
gen:      spec/GenPartitions.tla dumps the (partition, renaming) items; they are run through
          the real code on small weighted / directed / signed networks.
validate: spec/Trace_Relations.tla: RelabelInvariant, PDSymmetric, VInIn01, VIZeroIffSame,
          MIOneIffSame, Ci2lsLs2ciInverseUpToRenaming.
"""
import random

import numpy as np

from .. import core, encode, inputs, pool
from . import rel_common as rc

POOL = [-3, 0, 1, 2, 7, 100]

# fn -> (network type, kind)
QT = ["sta", "pos", "smp", "gja", "neg"]
FNS = {
    "participation_coef": "und", "participation_coef[in]": "dir", "participation_coef[out]": "dir",
    "participation_coef_sign": "sign", "diversity_coef_sign": "sign",
    "module_degree_zscore[0]": "und", "module_degree_zscore[1]": "dir",
    "module_degree_zscore[2]": "dir", "module_degree_zscore[3]": "dir",
    "gateway_coef_sign[degree]": "sign", "gateway_coef_sign[betweenness]": "sign",
    "modularity_und[kci]": "und", "modularity_dir[kci]": "dir",
}
for _q in QT:
    FNS["modularity_und_sign[%s]" % _q] = "sign"
INT_FNS = ("agreement", "agreement[buffsz=2]")


def labels(c, var=None):
    """the affiliation vector as the code sees it.  var = (dtype, scale, layout): labels are handed
    over as int64/int32/float64 (files written by other tools hold them as floats), multiplied by
    `scale` (0.5: fractional labels - an injective renaming of what the record holds, so the
    spec's relabelling relation on the integer labels still describes the call), contiguous or
    as every second element of a larger vector."""
    dtype, scale, layout = var or ("int64", 1, "C")
    v = np.array(c, dtype=float) * scale
    out = v.astype(dtype)
    if not np.array_equal(out.astype(float), v):
        raise core.MachineryError("lossy cast of a label vector to %s" % dtype)
    if layout == "stride":
        big = np.zeros(2 * len(out), dtype=out.dtype)
        big[::2] = out
        return big[::2]
    return out


def _call(fn, W, cs, var=None, opt=None):
    """-> (numeric output, list of partition-valued outputs)"""
    import bct
    opt = opt or {}
    c = [labels(x, var) for x in cs]
    arg = fn[fn.index("[") + 1:-1] if "[" in fn else None
    base = fn.split("[")[0]
    if base == "participation_coef":
        return bct.participation_coef(W, c[0], arg or "undirected"), []
    if base == "participation_coef_sign":
        return bct.participation_coef_sign(W, c[0]), []
    if base == "diversity_coef_sign":
        return bct.diversity_coef_sign(W, c[0]), []
    if base == "module_degree_zscore":
        return bct.module_degree_zscore(W, c[0], int(arg)), []
    if base == "gateway_coef_sign":
        return bct.gateway_coef_sign(W, c[0], arg), []
    if base == "modularity_und":
        ci, q = bct.modularity_und(W, opt.get("gamma", 1), c[0])
        return q, [ci]
    if base == "modularity_dir":
        ci, q = bct.modularity_dir(W, opt.get("gamma", 1), c[0])
        return q, [ci]
    if base == "modularity_und_sign":
        ci, q = bct.modularity_und_sign(W, c[0], arg)
        return q, [ci]
    if base == "partition_distance":
        return bct.partition_distance(c[0], c[1]), []
    if base == "agreement":
        ci = np.array(c).T
        if opt.get("fortran"):
            ci = np.asfortranarray(ci)
        return (bct.agreement(ci, buffsz=2) if arg else bct.agreement(ci)), []
    raise core.MachineryError("no runner for " + fn)


def _one(fn, mkW, cs, kind, var=None, opt=None):
    holder = {}

    scale = (var or ("int64", 1, "C"))[1]

    def thunk():
        out, pouts = _call(fn, mkW(), cs, var, opt)
        # a returned partition is read back in the record's label units (see `labels`)
        holder["p"] = [encode.vec_int(np.asarray(p, dtype=float) / scale) for p in pouts]
        return out
    out, _shape, raised = rc.call2(thunk, kind)
    return out, holder.get("p", []), raised


def _ls1(ls):
    return [[int(v) + 1 for v in m] for m in ls]


def _var(job, key):
    v = job.get(key)
    return tuple(v) if v else None


def exec_job(job):
    import bct
    rel = job["rel"]
    if rel == "relabel":
        fn = job["fn"]
        kind = "int" if fn in INT_FNS else "real"
        W0 = np.array(job["W"], dtype=float) if job.get("W") is not None else None
        # the network as another argument dtype / memory layout (a fresh array per call)
        mkW = (lambda: None) if W0 is None else \
            (lambda: rc.as_variant(W0, job.get("dtype", "float64"), job.get("layout", "C")))
        mkW()
        for c in job["cs1"]:
            labels(c, _var(job, "civar1"))
        for c in job["cs2"]:
            labels(c, _var(job, "civar2"))
        rec = dict(prop="C14", rel=rel, fn=fn, n=len(job["cs1"][0]), cs1=job["cs1"], cs2=job["cs2"])
        rec["out1"], rec["pout1"], rec["raised1"] = _one(fn, mkW, job["cs1"], kind, _var(job, "civar1"), job.get("opt"))
        rec["out2"], rec["pout2"], rec["raised2"] = _one(fn, mkW, job["cs2"], kind, _var(job, "civar2"), job.get("opt"))
        return rec
    if rel == "pdist":
        cx, cy = labels(job["cx"], _var(job, "civar1")), labels(job["cy"], _var(job, "civar2"))
        rec = dict(prop="C14", rel=rel, fn="partition_distance", n=len(cx), cx=job["cx"], cy=job["cy"],
                   vxy=0, mxy=0, vyx=0, myx=0, raised="")
        try:
            with np.errstate(all="ignore"):
                v1, m1 = bct.partition_distance(cx.copy(), cy.copy())
                v2, m2 = bct.partition_distance(cy.copy(), cx.copy())
            rec.update(vxy=encode.e_q(v1), mxy=encode.e_q(m1), vyx=encode.e_q(v2), myx=encode.e_q(m2))
        except Exception as e:                   # noqa: BLE001
            rec["raised"] = encode.exc_name(e)
        return rec
    if rel == "ci2ls":
        idt = (job.get("civar1") or ["int64"])[0]
        idt = idt if idt.startswith("int") else "int64"        # ci2ls indexes with the labels
        ci, ci2 = np.array(job["ci"], dtype=idt), np.array(job["ci2"], dtype=idt)
        lsin = [list(m) for m in job["lsin"]]          # 0-based node ids, as the code expects
        rec = dict(prop="C14", rel=rel, fn="ci2ls~ls2ci", n=len(ci), ci=job["ci"], ci2=job["ci2"],
                   lsin=_ls1(lsin), ls=[], ls2=[], back=[], back0=[], ciofls=[], ciofls0=[],
                   lsback=[], raised="")
        try:
            ls = bct.ci2ls(ci.copy())
            rec["ls"] = _ls1(ls)
            rec["ls2"] = _ls1(bct.ci2ls(ci2.copy()))
            rec["back"] = encode.vec_int(bct.ls2ci(ls))
            rec["back0"] = encode.vec_int(bct.ls2ci(ls, zeroindexed=True))
            c1 = bct.ls2ci(lsin)
            rec["ciofls"] = encode.vec_int(c1)
            rec["ciofls0"] = encode.vec_int(bct.ls2ci(lsin, zeroindexed=True))
            rec["lsback"] = _ls1(bct.ci2ls(np.array(c1)))
        except Exception as e:                   # noqa: BLE001
            rec["raised"] = encode.exc_name(e)
        return rec
    raise core.MachineryError("unknown job relation %r" % rel)


# ------------------------------------------------------------------- inputs
def network(rng, n, typ, dense=True):
    p = rng.choice([0.6, 0.8, 1.0]) if dense else rng.choice([0.25, 0.4, 0.6])
    if typ == "und":
        return inputs.rand_graph(rng, n, p, und=True, wmax=3)
    if typ == "dir":
        return inputs.rand_graph(rng, n, p, und=False, wmax=3)
    return inputs.rand_graph(rng, n, p, und=True, wmax=3, signed=True)


def structured_network(rng, typ, nmin=6, nmax=10):
    """(n, W): a structured support (rel_common.structured_support: paths, stars, rings of cliques,
    bipartite, several components, isolated nodes ...) with weights from a drawn set (single
    value = every weight ties), oriented for 'dir', random signs for 'sign'"""
    name, n, edges = rc.structured_support(rng, nmin, nmax)
    ws = rng.choice([[1, 2, 3], [1], [2], [1, 3]])
    und = typ != "dir"
    if not und:
        edges = rc.orient(rng, edges)
    w = [rng.choice(ws) * (rng.choice([1, -1]) if typ == "sign" else 1) for _ in edges]
    return name, n, inputs.mat_from_edges(n, edges, und=und, w=w)


def rand_partition(rng, n):
    """shape drawn: uniform labels over k blocks, one block, all singletons, one big block plus
    singletons, consecutive equal blocks (the modules of a ring of cliques)"""
    shape = rng.choice(["uniform", "uniform", "uniform", "one", "singletons", "big+singletons", "equal"])
    if shape == "one":
        return [1] * n
    if shape == "singletons":
        c = list(range(1, n + 1))
        rng.shuffle(c)
        return c
    if shape == "big+singletons":
        m = rng.randint(2, n - 1)
        c = [1] * m + list(range(2, n - m + 2))
        rng.shuffle(c)
        return c
    if shape == "equal":
        m = rng.choice([2, 3, 4])
        return [i // m + 1 for i in range(n)]
    k = rng.randint(1, n)
    c = [rng.randint(1, k) for _ in range(n)]
    return c


def rand_relabel(rng, c):
    labs = sorted(set(c))
    style = rng.randrange(4)
    if style == 0:                                   # zero-based contiguous
        new = list(range(len(labs)))
    elif style == 1:                                 # permutation of 1..k
        new = list(range(1, len(labs) + 1))
    elif style == 2:                                 # gapped, negative, large
        new = rng.sample([-40, -3, 0, 1, 2, 7, 11, 55, 100, 1000, 65536, 999999], len(labs)) \
            if len(labs) <= 12 else list(range(5, 5 + 3 * len(labs), 3))
    else:
        new = [3 * x + 10 for x in range(len(labs))]
    rng.shuffle(new)
    m = dict(zip(labs, new))
    return [m[x] for x in c]


def blocks(c):
    d = {}
    for i, l in enumerate(c):
        d.setdefault(l, []).append(i)
    return list(d.values())


W_DTYPES = {"und": rc.DT_COUNT, "dir": rc.DT_COUNT, "sign": rc.DT_SIGNED}


def w_variant(rng, typ, p_plain):
    """network weights are small (signed) integers: int64/int32 arrays are the same matrices.
    rel_common.admissible: the consumers subtract / divide W-typed arrays and return real values
    -> no unsigned type, no float32"""
    dt, lay = rc.draw_variant(rng, W_DTYPES[typ], p_plain)
    return rc.admissible(dt), lay


def ci_variant(rng, p_plain):
    """(dtype, scale, layout) of a label vector; scale 0.5 (fractional labels) needs float64"""
    if rng.random() < p_plain:
        return ["int64", 1, "C"]
    dt = rng.choice(["int64", "int32", "float64", "float64"])
    return [dt, rng.choice([1, 1, 0.5]) if dt == "float64" else 1, rng.choice(["C", "stride"])]


def relabel_job(rng, fn, src, W, cs1, cs2, typ=None, p_plain=0.5):
    """one f(W, c) vs f(W, rho o c) job; the two label vectors get independent dtype draws (a
    renamed vector written by another tool need not have the dtype of the original)"""
    j = dict(rel="relabel", fn=fn, src=src, W=W, cs1=cs1, cs2=cs2,
             civar1=ci_variant(rng, p_plain), civar2=ci_variant(rng, p_plain), opt={})
    if fn in INT_FNS:            # agreement: co-assignment counts; the stack of partitions as F-order
        j["opt"]["fortran"] = rng.randrange(2)
    if W is not None:
        j["dtype"], j["layout"] = w_variant(rng, typ or FNS[fn], p_plain)
    if fn.startswith(("modularity_und[", "modularity_dir[")):
        j["opt"]["gamma"] = rng.choice([1, 1, 0.5, 2])
    return j


def build_jobs(ctx):
    rng = random.Random(ctx.seed)
    jobs = []
    fns = sorted(FNS)
    sizes = [4] if ctx.quick else [4, 5]
    for n in sizes:
        items = rc.model_partitions(ctx, n)
        bank = {t: [network(rng, n, t, dense=rng.random() < 0.5).tolist() for k in range(6)]
                for t in ("und", "dir", "sign")}
        by_canon = {}
        for c, r in items:
            by_canon.setdefault(c, []).append(r)
        for i, (c, r) in enumerate(items):
            # f(W, c) vs f(W, rho o c); quick: every function with probability 1/3 per item
            for k, fn in enumerate(fns):
                if ctx.quick and rng.random() >= 1.0 / 3:
                    continue
                W = rng.choice(bank[FNS[fn]])
                jobs.append(relabel_job(rng, fn, "model", W, [list(c)], [list(r)]))
            # partition_distance of a partition with its renaming (must be VIn 0, MIn 1)
            jobs.append(dict(rel="pdist", fn="partition_distance", src="model", cx=list(c), cy=list(r),
                             civar1=ci_variant(rng, 0.5), civar2=ci_variant(rng, 0.5)))
            if not ctx.quick or rng.random() < 1.0 / 3:
                ls = blocks(c)
                rng.shuffle(ls)
                for m in ls:
                    rng.shuffle(m)
                jobs.append(dict(rel="ci2ls", fn="ci2ls~ls2ci", src="model", ci=list(r),
                                 ci2=list(rng.choice(by_canon[c])), lsin=ls,
                                 civar1=[rng.choice(["int64", "int32"]), 1, "C"]))
        # all ordered pairs of partitions, arbitrarily labelled: symmetry, zero/unit iff same,
        # and relabel invariance of partition_distance in both arguments
        canon = sorted(by_canon)
        for cx in canon:
            for cy in canon:
                for _ in range(1 if ctx.quick else 2):
                    x, y = rng.choice(by_canon[cx]), rng.choice(by_canon[cy])
                    jobs.append(dict(rel="pdist", fn="partition_distance", src="model",
                                     cx=list(x), cy=list(y),
                                     civar1=ci_variant(rng, 0.5), civar2=ci_variant(rng, 0.5)))
                    jobs.append(relabel_job(rng, "partition_distance", "model", None,
                                            [list(cx), list(cy)], [list(x), list(y)]))
        # agreement over M partitions, every column renamed independently
        for _ in range(200 if ctx.quick else 2500):
            M = rng.randint(1, 5)
            cols = [rng.choice(items) for _ in range(M)]
            for fn in INT_FNS:
                jobs.append(relabel_job(rng, fn, "model", None,
                                        [list(c) for c, _ in cols], [list(r) for _, r in cols]))
    # random larger networks (G(n,p) and structured supports) / partitions / renamings
    for t in range(60 if ctx.quick else 1200):
        nets, src = {}, "random"
        if rng.random() < 0.4:
            # the same structured support for the three network types
            st = rng.getstate()
            for typ in ("und", "dir", "sign"):
                rng.setstate(st)
                name, n, _ = rc.structured_support(rng, 6, 10)
                rng.setstate(st)
                _, _, W = structured_network(rng, typ)
                nets[typ] = W.tolist()
            src = "struct-" + name
        else:
            n = rng.randint(6, 10)
            dense = rng.random() < 0.5
            nets = {typ: network(rng, n, typ, dense=dense).tolist() for typ in ("und", "dir", "sign")}
        c = rand_partition(rng, n)
        r = rand_relabel(rng, c)
        for fn in fns:
            jobs.append(relabel_job(rng, fn, src, nets[FNS[fn]], [c], [r], p_plain=0.3))
        c2 = rand_partition(rng, n) if rng.random() < 0.75 else list(c)
        r2 = rand_relabel(rng, c2)
        jobs.append(dict(rel="pdist", fn="partition_distance", src=src, cx=r, cy=r2,
                         civar1=ci_variant(rng, 0.3), civar2=ci_variant(rng, 0.3)))
        jobs.append(relabel_job(rng, "partition_distance", src, None, [c, c2], [r, r2], p_plain=0.3))
        for fn in INT_FNS:
            jobs.append(relabel_job(rng, fn, src, None, [c, c2, c], [r, r2, c], p_plain=0.3))
        ls = blocks(c)
        rng.shuffle(ls)
        jobs.append(dict(rel="ci2ls", fn="ci2ls~ls2ci", src=src, ci=r, ci2=c, lsin=ls,
                         civar1=[rng.choice(["int64", "int32"]), 1, "C"]))
    return jobs


def describe(job, rec, clause):
    v = {k: job[k] for k in ("dtype", "layout", "civar1", "civar2", "opt") if job.get(k)}
    return rc.describe(job, rec, clause) + (" variants=%s" % v if v else "")


BAD_SKIPS = ("skip:unknown_function", "skip:not_a_relabelling", "skip:not_a_module_list",
             "skip:unknown_relation", "skip:unknown_property", "skip:fewer_than_two_nodes")


def run(ctx):
    ctx.mc("MC_Relations.tla", "MC_Relations_c14%s.cfg" % ("" if ctx.quick else "_thorough"))
    jobs = build_jobs(ctx)
    recs = pool.run_jobs(__name__, jobs)
    verdicts = ctx.validate(*rc.TRACE, recs, tag="c14", chunk=6000)
    bad = [(j["fn"], v[0]) for j, v in zip(jobs, verdicts) if v[0] in BAD_SKIPS]
    if bad:
        raise core.MachineryError("harness produced records outside the spec's domain: %s" % bad[:5])
    ctx.judge(jobs, rc.tag_failures(ctx, jobs, recs, verdicts), verdicts, what=describe)
    ctx.extra["verdict_counts"] = rc.count_verdicts(recs, verdicts)
    ctx.extra["argument_variants"] = rc.variant_counts([j for j in jobs if j.get("W") is not None])
    rc.note_never_judged(ctx, recs, verdicts)
    seen = set()
    for j, r, v in zip(jobs, recs, verdicts):
        if v[0].startswith("skip:"):
            continue
        if r["rel"] == "relabel" and r["cs1"] != r["cs2"] and len(set(r["cs1"][0])) >= 2:
            seen.add((r["fn"], str(j.get("W")), str(r["cs1"]), str(r["cs2"])))
        elif r["rel"] == "pdist" and len(set(r["cx"])) >= 2:
            seen.add(("pd", str(r["cx"]), str(r["cy"])))
        elif r["rel"] == "ci2ls" and len(set(r["ci"])) >= 2:
            seen.add(("ls", str(r["ci"]), str(r["lsin"])))
    ctx.nontrivial = len(seen)
    ctx.exhaustive = True
    nmax = 4 if ctx.quick else 5
    ctx.rule = ("every partition of n<=%d nodes x every injective renaming into {-3,0,1,2,7,100} "
                "(TLC-enumerated, spec/GenPartitions.tla) x %s of the %d label-consuming function variants "
                "on weighted/directed/signed networks; all ordered pairs of partitions for partition_distance; "
                "agreement over 1..5 independently renamed partitions; ci2ls/ls2ci round trips; seeded random "
                "n in 6..10 (G(n,p) and structured supports: paths, stars, rings of cliques, bipartite, several "
                "components, isolated nodes) with zero-based/permuted/gapped/negative/large labels and partition "
                "shapes incl. one block / all singletons / equal blocks; networks also as int64/int32 arrays and in "
                "other memory layouts, label vectors as int64/int32/float64 (also fractional, strided; drawn "
                "independently for the two labellings), gamma in {1/2,1,2} for modularity_*, all drawn from the "
                "seeded RNG; non-trivial = distinct judged "
                "case with >= 2 modules and a renaming that changes the vector"
                % (nmax, "a drawn third" if ctx.quick else "all", len(FNS) + 3))
    k = next(i for i, j in enumerate(jobs) if j["src"] == "random" and j["rel"] == "relabel")
    ctx.add_sample("model-input", dict(job=jobs[100], record=recs[100], verdict=verdicts[100]))
    ctx.add_sample("random-input", dict(job=jobs[k], record=recs[k], verdict=verdicts[k]))
    ctx.assumptions += [
        "TLC evaluates the definitions of spec/Relations.tla correctly",
        "outputs are compared after encoding: integers exactly, reals as round(x*10^6) within +-2",
        "integer weights 1..3 (signed for the _sign functions); gamma in {1/2, 1, 2} for modularity_und/_dir",
        "fractional labels are handed to the code as half the integer labels of the record (an injective renaming "
        "of them, so the record's labellings are relabellings of what the code saw)",
        "a function that raises the same exception for both labellings is skipped (no result to compare)",
    ]
    return ctx.finish()


def replay(ctx, rp):
    job = rp["job"]
    recs = pool.run_jobs(__name__, [job])
    verdicts = ctx.validate(*rc.TRACE, recs, tag="c14")
    core.log("replay verdict:", verdicts[0])
    core.log("  " + rc.describe(job, recs[0], verdicts[0][0]))
    ctx.judge([job], recs, verdicts, what=describe)
    return ctx.finish()
