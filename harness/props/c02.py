"""C02 - community detectors return a valid partition and its true modularity.
   (shared machinery with C07: see run_family)

mc:        spec/LouvainImpl.tla - L2 machine of modularity_louvain_und/_dir and
           modularity_finetune_und/_dir: incremental node-to-module sums, sweep permutations as
           draws, lowest-index arg-max, relabel, aggregation, stop rule, integer gains scaled by
           gd*s; BookkeepingInv, AggregationInv, GainIsTrueDelta, MoveRaisesQ, FinalInv on all
           small weighted graphs, all starting partitions (finetune), all visiting orders.
spec->code: TLC -simulate behaviours (sweep permutations) forced through ScriptedRNG; returned
           (ci, q) must equal the model's.
code->spec: seeded real runs of all ten routines with move/level hook events; Trace_Louvain.tla.
"""
import random

import numpy as np

from .. import core, inputs, louvain_common as lc, pool

PROP = "C02"
GEN = {"und4": "modularity_louvain_und", "und5": "modularity_louvain_und",
       "fund4": "modularity_finetune_und", "dir4": "modularity_louvain_dir",
       "fdir4": "modularity_finetune_dir"}
GEN_B = ["mod5", "moddir4", "potts5", "nsym4", "nasym4"]      # community_louvain (LouvainBImpl)
MCB_QUICK = ["q_mod4", "q_nsym3", "q_mod3d"]
MCB_THOROUGH = ["q_mod4", "q_moddir3", "q_potts4", "q_nsym3", "q_nasym3", "t_mod4w", "t_nsym4", "t_nasym4",
                "q_mod3d", "t_moddir3d", "t_potts3d"]
GEN_S = {"sta4": "modularity_louvain_und_sign", "gja4": "modularity_louvain_und_sign",
         "pos4": "modularity_louvain_und_sign", "fsmp4": "modularity_finetune_und_sign",
         "fneg4": "modularity_finetune_und_sign"}                  # signed routines (LouvainSImpl)
MCS_QUICK = ["q_fgja3"]
MCS_THOROUGH = ["q_sta4", "q_fgja3", "t_smp4", "t_pos4"]
MC_QUICK = ["q_und4", "q_fdir3", "q_und3d"]
MC_THOROUGH = ["q_und4", "q_und4g", "q_fund4", "q_dir3", "q_fdir3", "t_und4w",
               "q_und3d", "t_fund3d", "t_dir3d", "t_und4d"]      # ..d: inputs with self-connections
# (kept as cfg files for deeper runs by hand, each 20..45 min on 6 workers: MC_Louvain_t_fund4w / _t_fdir4,
#  MC_LouvainB_t_moddir4, MC_LouvainS_t_fneg4 / _t_fsta4; t_fund4w passed with 21.7 M states in 2405 s)
GAMMAS = [(1, 1), (3, 4), (5, 4)]
QTYPES = ["sta", "pos", "smp", "gja", "neg"]


def exec_job(job):
    return lc.exec_job(job)


def rand_partition(rng, n, pool_labels=None):
    k = rng.randint(1, n)
    labs = [rng.randint(1, k) for _ in range(n)]
    if pool_labels:
        ren = dict(zip(sorted(set(labs)), rng.sample(pool_labels, len(set(labs)))))
        labs = [ren[x] for x in labs]
    return labs


QUICK_GEN = {"und4", "fund4", "fdir4"}
QUICK_GEN_B = {"mod5", "nsym4", "moddir4"}
QUICK_GEN_S = {"sta4", "fsmp4"}


def behaviour_jobs(ctx, prop, per_worker):
    global GEN, GEN_B, GEN_S
    if ctx.quick:      # the quick tier replays a subset of the behaviour families
        GEN = {k: v for k, v in GEN.items() if k in QUICK_GEN}
        GEN_B = [k for k in GEN_B if k in QUICK_GEN_B]
        GEN_S = {k: v for k, v in GEN_S.items() if k in QUICK_GEN_S}
    thunks = [(lambda c=c: ctx.gen("MC_Louvain.tla", "Gen_Louvain_%s.cfg" % c, tag="sim_" + c, workers=4,
                                   timeout=900, extra=["-simulate", "num=%d" % per_worker, "-depth", "400",
                                                       "-seed", str(ctx.seed + 17)])) for c in GEN]
    thunks += [(lambda c=c: ctx.gen("MC_LouvainB.tla", "Gen_LouvainB_%s.cfg" % c, tag="simB_" + c, workers=4,
                                    timeout=900, extra=["-simulate", "num=%d" % per_worker, "-depth", "400",
                                                        "-seed", str(ctx.seed + 19)])) for c in GEN_B]
    thunks += [(lambda c=c: ctx.gen("MC_LouvainS.tla", "Gen_LouvainS_%s.cfg" % c, tag="simS_" + c, workers=4,
                                    timeout=900, extra=["-simulate", "num=%d" % per_worker, "-depth", "400",
                                                        "-seed", str(ctx.seed + 29)])) for c in GEN_S]
    res = ctx.parallel(thunks, width=5)
    jobs = []
    for (cfg, fn), items in zip(GEN_S.items(), res[len(GEN) + len(GEN_B):]):
        seen = set()
        for it in items:
            key = (str(it["W"]), str(it["start"]), str(it["script"]))
            if key in seen:
                continue
            seen.add(key)
            ties = any(x[0] == "tie" for x in it["script"])
            job = dict(fn=fn, prop=prop, W=it["W"], gn=it["gn"], gd=it["gd"], qtype=it["qtype"],
                       script=[[x[0], list(x[1])] for x in it["script"] if x[0] == "perm"],
                       expect=None if ties else dict(ci=it["ci"], qnum=it["qnum"], qden=it["qden"]),
                       exact_ties=int(ties), src="model-behaviour", cfg="S_" + cfg)
            if "finetune" in fn:
                job["start"] = it["start"]
            jobs.append(job)
    for cfg, items in zip(GEN_B, res[len(GEN):len(GEN) + len(GEN_B)]):
        seen = set()
        for it in items:
            key = (str(it["W"]), str(it["start"]), str(it["script"]))
            if key in seen:
                continue
            seen.add(key)
            ties = any(x[0] == "tie" for x in it["script"])
            jobs.append(dict(fn="community_louvain", prop=prop, W=it["W"], gn=it["gn"], gd=it["gd"],
                             objective=it["objective"], start=it["start"],
                             script=[[x[0], list(x[1])] for x in it["script"] if x[0] == "perm"],
                             expect=None if ties else dict(ci=it["ci"], qnum=it["qnum"], qden=it["qden"]),
                             exact_ties=int(ties), src="model-behaviour", cfg="B_" + cfg))
    res = res[:len(GEN)]
    nrng = random.Random(ctx.seed * 31 + 5)
    for (cfg, fn), items in zip(GEN.items(), res):
        seen = set()
        for it in items:
            key = (str(it["W"]), str(it["start"]), str(it["script"]))
            if key in seen:
                continue
            seen.add(key)
            ties = any(x[0] == "tie" for x in it["script"])
            job = dict(fn=fn, prop=prop, W=it["W"], gn=it["gn"], gd=it["gd"],
                       script=[[x[0], list(x[1])] for x in it["script"] if x[0] == "perm"],
                       # at an exact tie the float arg-max may legally pick another module: the
                       # behaviour's outcome is then not unique and no prediction is attached
                       expect=None if ties else dict(ci=it["ci"], qnum=it["qnum"], qden=it["qden"]),
                       exact_ties=int(ties), src="model-behaviour")
            if "finetune" in fn:
                job["start"] = it["start"]
            jobs.append(job)
            jobs += boundary_jobs(job, it, nrng)
    return jobs


def boundary_jobs(job, it, rng, cap=[0]):
    """guard-boundary inputs from the model: the behaviour passed a state in which joining another
    module would change Q by EXACTLY 0 (marker "zero": the node set that would move, the node set of the
    other module, the level).  The real code compares float gains with 1e-10: the same call is made
    with one connection between the two sets perturbed by +-4e-10 / 3e-11 / 3e-9, which puts the move just
    above or below the code's move threshold while the level's gain in Q stays below its level threshold."""
    zeros = [x[1] for x in it["script"] if x[0] == "zero" and len(x[1][0]) and len(x[1][1])]
    if not zeros or cap[0] >= 480:
        return []
    n = len(job["W"])
    und = lc.KIND[job["fn"]] == "und"
    out = []
    zeros.sort(key=lambda z: -z[2][0])          # deepest level first
    for A, B, _lvl in zeros[:2]:
        a, b = rng.choice(list(A)) - 1, rng.choice(list(B)) - 1
        # the window between the two thresholds is about (2e-10, 1e-10 * s / 4): 4e-10 lies inside for
        # every model input; 3e-11 stays below the move threshold, 3e-9 passes both thresholds
        for d in (4e-10, -4e-10, 3e-11, 3e-9):
            if d < 0 and job["W"][a][b] == 0:
                continue
            j = dict(job, noise=[[a, b, d]] + ([[b, a, d]] if und else []), expect=None, exact_ties=1,
                     src="model-boundary")
            if job["fn"] in ("modularity_louvain_und", "modularity_louvain_dir"):
                j["hierarchy"] = rng.randrange(2)
            if job["fn"] in lc.TAKES_START:
                j["feedback"] = 1
            out.append(j)
            cap[0] += 1
    return out


def random_jobs(ctx, prop, count):
    rng = random.Random(ctx.seed * 101 + 3)
    jobs = []
    unsigned = ["modularity_louvain_und", "modularity_finetune_und", "modularity_louvain_dir",
                "modularity_finetune_dir", "community_louvain", "community_louvain", "modularity_und",
                "modularity_dir"]
    signed = ["modularity_louvain_und_sign", "modularity_finetune_und_sign",
              "modularity_probtune_und_sign", "community_louvain"]
    labels_pool = [-3, 0, 1, 2, 7, 100, 5, 9, 11, 42]
    for t in range(count):
        # every option is drawn from the seeded RNG: index arithmetic on t aliases (a first version
        # never paired qtype 'gja' with a one-signed input for modularity_louvain_und_sign)
        gn, gd = rng.choice(GAMMAS + [(1, 1)])
        if t % 3 != 2:
            fn = rng.choice(unsigned)
            und = lc.KIND[fn] in ("und",) or (fn == "community_louvain" and rng.random() < 0.6)
            n = rng.randint(5, 8)
            W = inputs.rand_graph(rng, n, rng.choice([0.3, 0.5, 0.8]), und=und, wmax=rng.choice([1, 3]))
            if W.sum() == 0:
                continue
            if not und and rng.random() < 0.4:
                # sinks and sources (directed routines keep out- and in-sums apart: a node or a whole
                # module with out-degree 0 but in-degree > 0, or the reverse, separates the two)
                for i in rng.sample(range(n), rng.randint(1, max(1, n // 2))):
                    if rng.random() < 0.7:
                        W[i, :] = 0
                    else:
                        W[:, i] = 0
                if W.sum() == 0:
                    continue
            if rng.random() < 0.2:       # self-connections: part of "all networks with positive total
                for i in range(n):       # weight"; the first level then has the diagonal terms that
                    if rng.random() < 0.5:      # otherwise only pooled later levels have
                        W[i, i] = rng.randint(1, 2)
            job = dict(fn=fn, prop=prop, W=W.tolist(), gn=gn, gd=gd, seed=rng.randrange(2 ** 31), src="random")
            if fn == "community_louvain":
                job["objective"] = "modularity" if rng.random() < 0.8 or not (W <= 1).all() else "potts"
            if fn in ("modularity_louvain_und", "modularity_louvain_dir") and rng.random() < 0.4:
                job["hierarchy"] = 1
        else:
            fn = rng.choice(signed)
            n = rng.randint(4, 6)
            W = inputs.rand_graph(rng, n, rng.choice([0.5, 0.8, 1.0]), und=True, wmax=2, signed=True)
            one_sign = rng.random() < 0.3 and fn != "community_louvain"
            if one_sign:        # the signed routines document non-negative input as admissible:
                W = np.abs(W)   # one sign absent (s1 = 0) exercises the placeholder branches
            elif not ((W > 0).any() and (W < 0).any()):
                continue
            if W.sum() <= 0 and one_sign:
                continue
            job = dict(fn=fn, prop=prop, W=W.tolist(), gn=gn, gd=gd, qtype=rng.choice(QTYPES),
                       seed=rng.randrange(2 ** 31), src="random")
            if fn == "community_louvain":
                job["objective"] = rng.choice(["negative_sym", "negative_asym"])
        if fn in lc.TAKES_START:
            if rng.random() < 0.7:
                job["start"] = rand_partition(rng, n, labels_pool if rng.random() < 0.5 else None)
                if rng.random() < 0.3:
                    job["start_type"] = rng.choice(["float", "int32"])
            job["feedback"] = 1
        if rng.random() < 0.35:      # integer-typed / Fortran-ordered networks
            # signed integer types only: (i) the gain expressions subtract entries of W-typed arrays in
            # place, which wraps around for unsigned types - a numpy pitfall on the caller's side, not
            # a property of the optimiser; (ii) with float32 data the rounding noise (1e-7) exceeds the
            # code's 1e-10 move threshold, so "zero" gains trigger moves and the exact reading of the
            # threshold (DESIGN 3.3) no longer holds - both would be false alarms
            job["dtype"] = rng.choice(["int", "int32"])
            # (seed round 7) the routines that copy / promote their input before any arithmetic give, on
            # the unchanged tree, the very same result for boolean and 8-bit networks as for float64
            # (sampled 500 calls); the multi-level Louvain routines do not (in-place arithmetic in the
            # argument's type - the caller-side pitfall above) and keep the wide signed types
            if fn in ("modularity_finetune_und", "modularity_finetune_dir", "community_louvain",
                      "modularity_und", "modularity_dir") and rng.random() < 0.6:
                job["dtype"] = rng.choice(["bool", "int8", "uint8"])
        if rng.random() < 0.2:
            job["layout"] = "F"
        jobs.append(job)
    # boolean / 8-bit networks with a given start partition (seed round 7): the node-to-module sums of
    # the set-up phase are then taken over a narrow-typed matrix (a product or sum in the argument's
    # type saturates for bool and wraps for int8); binary networks stored as bool are ordinary input
    for t in range(max(40, count // 8)):
        fn = rng.choice(["modularity_finetune_und", "modularity_finetune_dir", "community_louvain"])
        und = fn != "modularity_finetune_dir"
        n = rng.randint(6, 10)
        W = inputs.rand_graph(rng, n, rng.choice([0.4, 0.6, 0.8]), und=und, wmax=1)
        if W.sum() == 0:
            continue
        gn, gd = rng.choice(GAMMAS + [(1, 1)])
        job = dict(fn=fn, prop=prop, W=W.tolist(), gn=gn, gd=gd, seed=rng.randrange(2 ** 31), src="random-narrow",
                   start=rand_partition(rng, n, None), feedback=1, dtype=rng.choice(["bool", "bool", "int8", "uint8"]))
        if fn == "community_louvain":
            job["objective"] = "modularity"
        jobs.append(job)
    # multi-level structure: rings of small cliques / long cycles make the optimisers aggregate over
    # three or more levels with real merging at every level (random graphs on <= 8 nodes rarely do)
    for t in range(max(40, count // 5)):
        k, c = rng.choice([(5, 2), (6, 2), (7, 2), (8, 2), (4, 3), (5, 3), (6, 3)])
        n = k * c
        A = np.zeros((n, n))
        wint = rng.choice([1, 1, 2])
        for b in range(k):
            for i in range(c):
                for j in range(i + 1, c):
                    A[b * c + i, b * c + j] = A[b * c + j, b * c + i] = rng.randint(1, wint)
            u, v = b * c + c - 1, ((b + 1) % k) * c
            A[u, v] = A[v, u] = 1
        p = list(range(n))
        rng.shuffle(p)
        A = A[np.ix_(p, p)]
        if rng.random() < 0.25:          # unit (or heavier) self-connection on every node
            A[np.diag_indices(n)] = rng.choice([1, 2])
        fn = ["community_louvain", "modularity_louvain_und", "modularity_finetune_und",
              "community_louvain"][t % 4]
        gn, gd = GAMMAS[(t // 4) % 3]
        job = dict(fn=fn, prop=prop, W=A.tolist(), gn=gn, gd=gd, seed=rng.randrange(2 ** 31), src="ring-of-cliques")
        if fn == "community_louvain":
            job["objective"] = "modularity"
        if fn == "modularity_louvain_und" and t % 8 < 4:
            job["hierarchy"] = 1
        if fn in lc.TAKES_START:
            if t % 3:
                lab = rng.sample(labels_pool, k) if k <= len(labels_pool) else list(range(k))
                job["start"] = [lab[p[i] // c] for i in range(n)]     # one module per clique, shuffled labels
            job["feedback"] = 1
        jobs.append(job)
    # directed networks rich in sinks and sources (8..14 nodes, a third of them with no outgoing or no
    # incoming connection), started from partitions in which one module is a single ordinary node plus
    # sinks/sources: when that node leaves, the module's out- (in-) sums are zero although it is not
    # empty - the state in which the two mirrored bookkeeping arrays of the directed routines differ
    # most.  Wrong moves from that state are rare per run (measured on a seeded slip: 0.3 %), the runs
    # are cheap: volume.
    for t in range(1500 if count <= 1000 else 6000):
        n = rng.randint(8, 14)
        W = inputs.rand_graph(rng, n, rng.choice([0.2, 0.3]), und=False, wmax=3)
        deg = rng.sample(range(n), max(1, n // 3))
        for i in deg:
            if rng.random() < 0.75:
                W[i, :] = 0
            else:
                W[:, i] = 0
        if W.sum() == 0:
            continue
        k = rng.randint(2, n)
        start = [rng.randint(1, k) for _ in range(n)]
        non = [i for i in range(n) if i not in deg]
        if non and rng.random() < 0.6:
            start[rng.choice(non)] = k + 1
            for x in rng.sample(deg, rng.randint(1, len(deg))):
                start[x] = k + 1
        fn = rng.choice(["modularity_finetune_dir"] * 3 + ["community_louvain"])
        gn, gd = rng.choice(GAMMAS + [(1, 1)])
        job = dict(fn=fn, prop=prop, W=W.tolist(), gn=gn, gd=gd, seed=rng.randrange(2 ** 31),
                   src="sinks-sources", start=start)
        if fn == "community_louvain":
            job["objective"] = "modularity"
        jobs.append(job)
    # the smallest networks: one node with a self-connection, two nodes (positive total weight), with
    # and without a given start partition, arbitrary labels
    for fn in unsigned:
        for W in ([[2.0]], [[1.0, 1.0], [1.0, 0.0]], [[0.0, 3.0], [3.0, 0.0]], [[1.0, 2.0], [2.0, 1.0]]):
            n = len(W)
            if lc.KIND[fn] == "dir" and n == 2 and rng.random() < 0.5:
                W = [[0.0, 2.0], [1.0, 1.0]]
            gn, gd = rng.choice(GAMMAS)
            job = dict(fn=fn, prop=prop, W=W, gn=gn, gd=gd, seed=rng.randrange(2 ** 31), src="tiny")
            if fn == "community_louvain":
                job["objective"] = "modularity"
            jobs.append(job)
            if fn in lc.TAKES_START:
                lab = rng.sample(labels_pool, n)
                jobs.append(dict(job, start=lab, feedback=1))
                jobs.append(dict(job, start=[lab[0]] * n))
    # modularity_und/_dir/_und_sign for a given partition
    for t in range(max(30, count // 6)):
        which = t % 3
        n = rng.randint(4, 7)
        gn, gd = GAMMAS[t % 3]
        if which == 2:
            W = inputs.rand_graph(rng, min(n, 6), 0.8, und=True, wmax=2, signed=True)
            if not ((W > 0).any() and (W < 0).any()):
                continue
            jobs.append(dict(fn="modularity_und_sign", given=1, prop=prop, W=W.tolist(), gn=1, gd=1,
                             qtype=QTYPES[t % 5], start=rand_partition(rng, len(W), labels_pool), src="given",
                             start_form=rng.choice(["array", "array", "list", "tuple", "float"])))
        else:
            W = inputs.rand_graph(rng, n, 0.6, und=(which == 0), wmax=3)
            if W.sum() == 0:
                continue
            jobs.append(dict(fn=["modularity_und", "modularity_dir"][which], given=1, prop=prop,
                             W=W.tolist(), gn=gn, gd=gd, start=rand_partition(rng, n, labels_pool), src="given",
                             start_form=rng.choice(["array", "array", "row", "row", "list", "tuple", "float"])))
    return jobs


def run_family(ctx, prop):
    mc_cfgs = MC_QUICK if ctx.quick else MC_THOROUGH
    mcb = MCB_QUICK if ctx.quick else MCB_THOROUGH
    ctx.parallel([(lambda c=c: ctx.mc("MC_Louvain.tla", "MC_Louvain_%s.cfg" % c, tag="mc_" + c,
                                      workers=6, timeout=3000)) for c in mc_cfgs] +
                 [(lambda c=c: ctx.mc("MC_LouvainB.tla", "MC_LouvainB_%s.cfg" % c, tag="mcB_" + c,
                                      workers=6, timeout=3000)) for c in mcb] +
                 [(lambda c=c: ctx.mc("MC_LouvainS.tla", "MC_LouvainS_%s.cfg" % c, tag="mcS_" + c,
                                      workers=6, timeout=3000))
                  for c in (MCS_QUICK if ctx.quick else MCS_THOROUGH)], width=4)
    jobs = behaviour_jobs(ctx, prop, 60 if ctx.quick else 500)
    nb = len(jobs)
    jobs += random_jobs(ctx, prop, 360 if ctx.quick else 6000)
    recs = pool.run_jobs("harness.props.c02", jobs, limit=20.0)
    verdicts = ctx.validate("Trace_Louvain.tla", "Trace_Louvain.cfg", recs, chunk=1500)
    ctx.judge(jobs, recs, verdicts)
    scripted = [r for r in recs[:nb] if not r.get("timeout")]
    ctx.extra["scripted_behaviours"] = nb
    ctx.extra["scripted_followed"] = sum(1 for r in scripted if r["script_status"] == "followed")
    ctx.extra["scripted_off_script"] = sum(1 for r in scripted if r["script_status"].startswith("off"))
    ctx.extra["hook_events_validated"] = sum(len(r.get("events", [])) for r in recs)
    nt = set()
    for j, r in zip(jobs, recs):
        if r.get("ci_out") and len(set(r["ci_out"])) >= 2:
            nt.add((r["fn"], str(r["W"]), str(j.get("script") or j.get("seed") or j.get("start")),
                    r["gn"], r["gd"], r["qtype"]))
    ctx.nontrivial = len(nt)
    ctx.rule = ("TLC -simulate behaviours of LouvainImpl (sweep permutations) replayed through ScriptedRNG; "
                "seeded runs of all ten routines on random integer-weighted graphs (n 4..8), gamma in "
                "{3/4,1,5/4}, every qtype/objective, random start partitions with arbitrary labels, "
                "hierarchy=True, given-partition calls; non-trivial = distinct run returning >= 2 modules")
    if nb:
        ctx.add_sample("scripted-behaviour", dict(job=jobs[0], ci=recs[0].get("ci_out"), q=recs[0].get("q_out")))
    ctx.add_sample("random-trace", dict(job=jobs[nb], events=recs[nb].get("events", [])[:3],
                                        ci=recs[nb].get("ci_out"), q=recs[nb].get("q_out")))
    ctx.assumptions += [
        "integer weights (<=3 unsigned n<=8; |w|<=2 signed n<=6), gamma in {3/4,1,5/4}: all Q values are "
        "exact fractions evaluated in 32-bit integers",
        "the 1e-10 thresholds of the code are read as > 0 in exact arithmetic (positive exact gains are "
        ">= 1/(gd*s^2) >> 1e-10 on these domains)",
        "signed and community_louvain routines have no L2 machine of their own: they are bound through "
        "the hook-trace clauses (per-move exact delta, per-level consistency) only",
    ]
    return ctx.finish()


def run(ctx):
    return run_family(ctx, PROP)


def replay(ctx, rp):
    job = rp["job"]
    recs = pool.run_jobs("harness.props.c02", [job], limit=60.0)
    verdicts = ctx.validate("Trace_Louvain.tla", "Trace_Louvain.cfg", recs)
    core.log("replay verdict:", verdicts[0])
    ctx.judge([job], recs, verdicts)
    return ctx.finish()
