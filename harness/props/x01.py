"""X01 (extended coverage, DESIGN section 8 item 1; NOT registered in MANIFEST) -
deterministic local/global measures equal their documented definitions.

mc:       spec/MC_Measures.tla - on every undirected graph n<=5, every digraph n<=4, small
          weighted / signed matrices and every labelling with <= 3 labels: two independent
          formulations of each L0 definition of spec/Measures.tla agree exactly; range and
          identity lemmas (sum of jdegree = n, density / rich-club / matching / participation in
          [0,1], matching symmetric, z-scores of a module sum to 0 and their squares to its size,
          r in [-1,1], erange >= 2, fc + cc <= 1, ...); every operator is equivariant under node
          relabelling (all of S_n for n<=4 undirected / n<=3 directed and weighted; the three
          adjacent transpositions - which generate S_4 - on every digraph n=4 in the quick tier,
          all 24 permutations in the thorough tier).
run:      degrees_und/_dir, strengths_und/_dir/_und_sign, density_und/_dir, jdegree,
          matching_ind(_und), edge_nei_overlap_bu/_bd, flow_coef_bd, rich_club_bu/_bd/_wu/_wd,
          assortativity_bin[0..4], participation_coef[undirected|out|in],
          module_degree_zscore[0..3], erange, efficiency_bin[local] on every model graph
          (TLC-enumerated), integer-weighted and signed versions, TLC-enumerated partitions with
          arbitrary labels, seeded random and structured graphs n in 6..10.
validate: spec/Trace_Measures.tla judges every record against Part 1 of Measures.tla (exact
          fractions vs 10^-6 fixed point, tolerance 2; z-scores and r by sign and square).
"""
import random
import threading

import numpy as np

from .. import core, encode, inputs, pool

MODES = ["undirected", "out", "in"]          # participation_coef: opt 0, 1, 2


# ------------------------------------------------------------------ the real calls
def _q(x):
    try:
        return encode.e_q(x)
    except ValueError:
        return encode.INF if x > 0 else encode.NINF


def _qv(a):
    return [_q(x) for x in np.asarray(a, dtype=float).ravel()]


def _qm(A):
    return [[_q(x) for x in row] for row in np.asarray(A, dtype=float)]


def _iv(a):
    return encode.vec_int(np.asarray(a, dtype=float))


def _im(A):
    return encode.mat_int(np.asarray(A, dtype=float))


def _call(base, opt, W, ci):
    import bct
    f = getattr(bct, base)
    if base == "assortativity_bin":
        return f(W, opt)
    if base == "participation_coef":
        return f(W, ci, MODES[opt])
    if base == "module_degree_zscore":
        return f(W, ci, opt)
    if base.startswith("rich_club"):
        return f(W) if opt < 0 else f(W, opt)
    if base == "efficiency_bin":
        return f(W, True)
    return f(W)


def _pack(base, res, rec):
    """sort the returned values into the integer / fixed-point slots of the record."""
    if base in ("degrees_und", "strengths_und"):
        rec["iv"] = [_iv(res)]
    elif base == "degrees_dir":
        rec["iv"] = [_iv(v) for v in res]
    elif base == "strengths_dir":
        rec["iv"] = [_iv(v) for v in res] if isinstance(res, tuple) else [_iv(res)]
    elif base == "strengths_und_sign":
        sp, sn, vp, vn = res
        rec["iv"] = [_iv(sp), _iv(sn), _iv([vp, vn])]
    elif base in ("density_und", "density_dir"):
        kden, N, k = res
        rec["qv"] = [[_q(kden)]]
        rec["iv"] = [_iv([N, k])]
    elif base == "jdegree":
        J, jo, ji, jb = res
        rec["im"] = [_im(J)]
        rec["iv"] = [_iv([jo, ji, jb])]
    elif base == "matching_ind":
        rec["qm"] = [_qm(M) for M in res]
    elif base == "matching_ind_und":
        rec["qm"] = [_qm(res)]
    elif base in ("edge_nei_overlap_bu", "edge_nei_overlap_bd"):
        EC, ec, degij = res
        rec["qm"] = [_qm(EC)]
        rec["qv"] = [_qv(ec)]
        degij = np.asarray(degij, dtype=float)
        if degij.ndim != 2 or degij.shape[0] != 2:
            rec["malformed"] = "degij shape %s" % (degij.shape,)
        else:
            rec["im"] = [_im(degij)]
    elif base == "flow_coef_bd":
        fc, FC, tot = res
        rec["qv"] = [_qv(fc), [_q(FC)]]
        rec["iv"] = [_iv(tot)]
    elif base in ("rich_club_bu", "rich_club_bd"):
        R, Nk, Ek = res
        rec["qv"] = [_qv(R)]
        rec["iv"] = [_iv(Nk), _iv(Ek)]
    elif base in ("rich_club_wu", "rich_club_wd"):
        rec["qv"] = [_qv(res)]
    elif base == "assortativity_bin":
        r = float(res)
        rec["qv"] = [[_q(r)]]
        rec["q2"] = [[_q(r * r)]]
    elif base == "participation_coef":
        rec["qv"] = [_qv(res)]
    elif base == "module_degree_zscore":
        z = np.asarray(res, dtype=float).ravel()
        rec["qv"] = [_qv(z)]
        rec["q2"] = [_qv(z * z)]
    elif base == "erange":
        Er, eta, Es, fs = res
        rec["im"] = [_im(Er), _im(np.asarray(Es, dtype=float))]
        rec["qv"] = [[_q(eta), _q(fs)]]
    elif base == "efficiency_bin":
        rec["qv"] = [_qv(res)]
    else:
        rec["malformed"] = "unknown function"


def exec_job(job):
    A = np.array(job["A"], dtype=np.int64)
    n = len(A)
    base, opt = job["base"], int(job["opt"])
    ci = list(job.get("ci") or [])
    rec = dict(fn=job["fn"], base=base, opt=opt, n=n, A=A.tolist(), ci=ci, raised="", malformed="",
               iv=[], qv=[], q2=[], im=[], qm=[])
    # jdegree indexes an array with the degrees: integer dtype (the TypeError on float input is
    # on record already, DESIGN 0.3)
    W = A.copy() if job.get("dtype") == "int" else A.astype(float)
    try:
        res = _call(base, opt, W, np.array(ci) if ci else None)
    except Exception as e:
        rec["raised"] = encode.exc_name(e)
        return rec
    try:
        _pack(base, res, rec)
    except Exception as e:            # not the documented shape
        rec["malformed"] = "%s: %s" % (encode.exc_name(e), str(e)[:80])
    return rec


# ------------------------------------------------------------------ inputs
def job(base, A, opt=0, ci=None, src="", tag=None, dtype="float"):
    fn = base if tag is None else "%s[%s]" % (base, tag)
    return dict(fn=fn, base=base, opt=opt, A=A, ci=list(ci) if ci is not None else [], src=src,
                dtype=dtype)


def mat(n, edges, und, val=lambda i, j: 1):
    A = [[0] * n for _ in range(n)]
    for (i, j) in edges:
        v = val(i, j)
        A[i][j] = v
        if und:
            A[j][i] = v
    return A


def und_fns(A, src, rng, weighted=False, heavy=True):
    """the routines documented for undirected input, on a symmetric matrix."""
    J = [job("degrees_und", A, src=src), job("strengths_und", A, src=src), job("density_und", A, src=src),
         job("edge_nei_overlap_bu", A, src=src), job("assortativity_bin", A, 0, src=src, tag="0"),
         job("rich_club_wu", A, -1, src=src, tag="None"), job("efficiency_bin", A, src=src, tag="local"),
         job("strengths_und_sign", A, src=src)]
    if not weighted:
        J += [job("matching_ind_und", A, src=src), job("rich_club_bu", A, -1, src=src, tag="None")]
        if heavy:
            J += [job("rich_club_bu", A, rng.randint(1, len(A)), src=src, tag="klevel")]
    elif heavy:
        J += [job("rich_club_wu", A, rng.randint(1, len(A)), src=src, tag="klevel")]
    return J


def dir_fns(A, src, rng, weighted=False, heavy=True):
    """the routines documented for directed (or any) input."""
    J = [job("degrees_dir", A, src=src), job("strengths_dir", A, src=src), job("density_dir", A, src=src),
         job("jdegree", A, src=src, dtype="int"), job("edge_nei_overlap_bd", A, src=src),
         job("rich_club_wd", A, -1, src=src, tag="None"), job("efficiency_bin", A, src=src, tag="local")]
    if heavy:
        J += [job("rich_club_wd", A, rng.randint(1, 2 * len(A)), src=src, tag="klevel")]
    flags = [1, 2, 3, 4] if heavy else [rng.randint(1, 4)]
    J += [job("assortativity_bin", A, f, src=src, tag=str(f)) for f in flags]
    if not weighted:
        J += [job("matching_ind", A, src=src), job("flow_coef_bd", A, src=src), job("erange", A, src=src),
              job("rich_club_bd", A, -1, src=src, tag="None")]
        if heavy:
            J += [job("rich_club_bd", A, rng.randint(1, 2 * len(A)), src=src, tag="klevel")]
    return J


def part_fns(A, ci, src, sym, flags=None):
    J = []
    for opt in ([0, 1, 2] if sym else [1, 2]):
        J.append(job("participation_coef", A, opt, ci, src, tag=MODES[opt]))
    for opt in (flags or ([0, 1, 2, 3] if sym else [1, 2, 3])):
        J.append(job("module_degree_zscore", A, opt, ci, src, tag=str(opt)))
    return J


LABEL_POOL = [-3, 0, 1, 2, 7, 100, 41, 5]


def rand_labels(rng, n):
    k = rng.randint(1, min(n, 4))
    names = rng.sample(LABEL_POOL, k)
    ci = [names[rng.randrange(k)] for _ in range(n)]
    return ci


def structured(rng, n, kind):
    E = set()
    if kind == "ring":
        E = {tuple(sorted((i, (i + 1) % n))) for i in range(n)}
    elif kind == "star":
        E = {(0, j) for j in range(1, n)}
    elif kind == "pairs":                       # isolated edges + one triangle
        for t in range(0, n - 4, 2):
            E.add((t, t + 1))
        E |= {(n - 3, n - 2), (n - 2, n - 1), (n - 3, n - 1)}
    elif kind == "cliques":                     # two cliques joined by one edge
        h = n // 2
        E = {(i, j) for i in range(h) for j in range(i + 1, h)}
        E |= {(i, j) for i in range(h, n) for j in range(i + 1, n)}
        E.add((h - 1, h))
    elif kind == "rich":                        # a dense core with pendant nodes
        h = max(3, n // 2)
        E = {(i, j) for i in range(h) for j in range(i + 1, h)}
        for v in range(h, n):
            E.add((rng.randrange(h), v))
    elif kind == "complete":
        E = {(i, j) for i in range(n) for j in range(i + 1, n)}
    perm = list(range(n))
    rng.shuffle(perm)
    return sorted(tuple(sorted((perm[i], perm[j]))) for (i, j) in E)


KINDS = ["ring", "star", "pairs", "cliques", "rich", "complete"]


def orient(rng, edges):
    arcs = []
    for (i, j) in edges:
        o = rng.choice([0, 1, 2])
        if o in (0, 2):
            arcs.append((i, j))
        if o in (1, 2):
            arcs.append((j, i))
    return arcs


def build_jobs(ctx):
    rng = random.Random(ctx.seed)
    jobs = []
    wpos = lambda i, j: rng.choice([1, 2, 3])
    wsgn = lambda i, j: rng.choice([-3, -2, -1, 1, 2, 3])
    # ---- every undirected model graph, n = 3..5
    for n in (3, 4, 5):
        graphs = inputs.model_graphs(ctx, "und", n)
        for gi, edges in enumerate(graphs):
            src = "model-und%d" % n
            full = n <= 4 or not ctx.quick
            A = mat(n, edges, True)
            jobs += und_fns(A, src, rng, heavy=full)
            if full or gi % 8 == 0:              # directed routines on symmetric input
                jobs += dir_fns(A, src + "-as-dir", rng, heavy=False)
            if full or gi % 8 == 1:
                jobs += und_fns(mat(n, edges, True, wpos), src + "-w", rng, weighted=True, heavy=False)
            if full or gi % 8 == 2:
                S = mat(n, edges, True, wsgn)
                jobs += [job("strengths_und_sign", S, src=src + "-signed"),
                         job("strengths_und", S, src=src + "-signed")]
    # ---- every model digraph, n = 3..4
    for n in (3, 4):
        graphs = inputs.model_graphs(ctx, "dir", n)
        for gi, edges in enumerate(graphs):
            src = "model-dir%d" % n
            A = mat(n, edges, False)
            if n == 3 or not ctx.quick:
                jobs += dir_fns(A, src, rng, heavy=True)
            else:
                # quick: every digraph on 4 nodes goes through 3-4 of the 17 routines, in rotation
                fl = dir_fns(A, src, rng, heavy=True)
                jobs += [j for k, j in enumerate(fl) if (k + gi) % 5 == 0]
            if n == 3 or gi % (32 if ctx.quick else 2) == 0:
                jobs += dir_fns(mat(n, edges, False, wpos), src + "-w", rng, weighted=True, heavy=False)
                jobs += [job("strengths_dir", mat(n, edges, False, wsgn), src=src + "-signed")]
    # ---- partitions with arbitrary labels (TLC-enumerated), on model graphs
    from . import rel_common
    for n in (4, 5):
        parts = rel_common.model_partitions(ctx, n)
        ug = inputs.model_graphs(ctx, "und", n)
        dg = inputs.model_graphs(ctx, "dir", 4)
        for k, (c, labels) in enumerate(inputs.sample(rng, parts, 250 if ctx.quick else 1500)):
            e = ug[rng.randrange(len(ug))]
            w = wpos if k % 2 else (lambda i, j: 1)
            jobs += part_fns(mat(n, e, True, w), labels, "model-part%d-und" % n, True)
            if n == 4:
                e = dg[rng.randrange(len(dg))]
                jobs += part_fns(mat(4, e, False, w), labels, "model-part4-dir", False)
    for e in inputs.model_graphs(ctx, "und", 4):               # every graph on 4 nodes x 3 labellings
        for _ in range(3):
            jobs += part_fns(mat(4, e, True), rand_labels(rng, 4), "model-und4-labels", True, flags=[0])
    # ---- self-connections: strengths_und_sign clears the diagonal itself
    for _ in range(40):
        n = rng.randint(3, 7)
        e = [(i, j) for i in range(n) for j in range(i, n) if rng.random() < 0.5]
        jobs.append(job("strengths_und_sign", mat(n, e, True, wsgn), src="random-signed-selfloops"))
        jobs.append(job("matching_ind", mat(n, orient(rng, e), False), src="random-dir-selfloops"))
    # ---- seeded random and structured graphs, n in 6..10
    nrand = 40 if ctx.quick else 400
    for k in range(nrand):
        n = rng.randint(6, 10)
        if k % 2 == 0:
            kind = KINDS[(k // 2) % len(KINDS)]
            edges = structured(rng, n, kind)
            src = "struct-" + kind
        else:
            p = rng.choice([0.15, 0.3, 0.5, 0.8])
            edges = [(i, j) for i in range(n) for j in range(i + 1, n) if rng.random() < p]
            src = "random"
        arcs = orient(rng, edges)
        U = mat(n, edges, True)
        D = mat(n, arcs, False)
        UW = mat(n, edges, True, wpos)
        DW = mat(n, arcs, False, wpos)
        jobs += und_fns(U, src + "-und", rng) + dir_fns(D, src + "-dir", rng)
        jobs += und_fns(UW, src + "-und-w", rng, weighted=True) + dir_fns(DW, src + "-dir-w", rng, weighted=True)
        jobs += [job("strengths_und_sign", mat(n, edges, True, wsgn), src=src + "-signed")]
        for _ in range(2):
            ci = rand_labels(rng, n)
            jobs += part_fns(UW if rng.random() < 0.5 else U, ci, src + "-und-part", True)
            jobs += part_fns(DW if rng.random() < 0.5 else D, ci, src + "-dir-part", False)
    return jobs


# ------------------------------------------------------------------ models
# (the heaviest first, so that they do not end up alone at the tail)
QUICK_MODELS = ["x_dir4", "e_dir4g", "x_und5", "e_und4", "p_dir3", "x_wund4", "p_und4g", "e_wdir3",
                "x_und4", "x_wdir3", "x_sund3", "e_sund3"]
THOROUGH_MODELS = ["x_und4", "x_und5", "x_dir3", "x_dir4", "x_wund4", "x_wdir3", "x_sund3", "x_sund4",
                   "p_und4", "p_dir3", "p_wund3", "p_dir4", "e_und4", "e_dir3", "e_dir4", "e_wund4",
                   "e_wdir3", "e_sund3", "e_und5g"]


def run_models(ctx, names, par):
    thunks = [(lambda m=m: ctx.mc("MC_Measures.tla", "MC_Measures_%s.cfg" % m, tag="mc_" + m, workers=3))
              for m in names]
    ctx.parallel(thunks, width=par)


def validate_parallel(ctx, recs, parts, par):
    if len(recs) < 1500:
        return ctx.validate("Trace_Measures.tla", "Trace_Measures.cfg", recs)
    size = (len(recs) + parts - 1) // parts
    thunks = [(lambda k=k: ctx.validate("Trace_Measures.tla", "Trace_Measures.cfg",
                                        recs[k * size:(k + 1) * size], tag="Trace_Measures_p%d" % k,
                                        chunk=size + 1))
              for k in range(parts) if recs[k * size:(k + 1) * size]]
    out = ctx.parallel(thunks, width=par)
    return [v for part in out for v in part]


def what(job, rec, clause):
    return "src=%s n=%d opt=%s A=%s ci=%s raised=%s malformed=%s iv=%s qv=%s im=%s qm=%s" % (
        job.get("src"), rec["n"], rec["opt"], rec["A"], rec["ci"], rec["raised"], rec["malformed"],
        rec["iv"], rec["qv"], rec["im"], rec["qm"])


def run(ctx):
    result = {}

    def models():
        try:
            run_models(ctx, QUICK_MODELS if ctx.quick else THOROUGH_MODELS, par=5 if ctx.quick else 6)
        except Exception as e:
            result["err"] = e
    # the models do not depend on the real calls: check them while the calls run and are judged
    th = threading.Thread(target=models)
    th.start()
    try:
        jobs = build_jobs(ctx)
        recs = pool.run_jobs(__name__, jobs, procs=8)
        verdicts = validate_parallel(ctx, recs, parts=4 if ctx.quick else 12, par=2 if ctx.quick else 3)
    finally:
        th.join()
    if "err" in result:
        raise result["err"]
    ctx.judge(jobs, recs, verdicts, what=what)
    per_fn = {}
    seen = set()
    for j, r, v in zip(jobs, recs, verdicts):
        per_fn[r["fn"]] = per_fn.get(r["fn"], 0) + 1
        # non-trivial: judged (not skipped) on a network with at least two connections
        if not v[0].startswith("skip") and sum(1 for row in r["A"] for x in row if x) >= 2:
            seen.add((r["fn"], str(r["A"]), str(r["ci"])))
    ctx.nontrivial = len(seen)
    ctx.exhaustive = True
    ctx.extra["records_per_function"] = per_fn
    ctx.rule = ("every undirected graph on 3..5 nodes and every digraph on 3..4 nodes (TLC-enumerated; %s), "
                "integer weights 1..3 and signed weights on the same supports, TLC-enumerated partitions "
                "of 4 and 5 nodes under arbitrary label names, %d seeded random and structured graphs "
                "(rings, stars, isolated edges, joined cliques, dense core with pendants, complete) n in "
                "6..10, directed and undirected; non-trivial = distinct (function, input) judged on a "
                "network with >= 2 connections" % (
                    "quick: each digraph on 4 nodes through a rotating fifth of the directed routines, "
                    "directed routines on every 8th symmetric 5-node graph" if ctx.quick
                    else "all routines on all of them", 40 if ctx.quick else 400))
    for k in (0, len(jobs) // 2, len(jobs) - 1):
        ctx.add_sample("input", dict(job=jobs[k], record=recs[k], verdict=list(verdicts[k])))
    ctx.assumptions += [
        "TLC evaluates the L0 definitions of spec/Measures.tla correctly",
        "observed floats compared at 10^-6 (tolerance 2 units); z-scores and r by sign and square",
        "integer weights in 1..3 (signed: -3..3), n <= 10: every intermediate value < 2^31",
        "erange on a network without connections (0/0) is skipped; rich_club_wu/_wd levels whose club "
        "is the whole network may be NaN (as in the MATLAB source) or 1",
        "module_degree_zscore: population standard deviation (bctpy's documented choice); the MATLAB "
        "sample-std value is reported as drift only",
    ]
    return ctx.finish()


def replay(ctx, rp):
    j = rp["job"]
    recs = pool.run_jobs(__name__, [j])
    verdicts = ctx.validate("Trace_Measures.tla", "Trace_Measures.cfg", recs)
    core.log("replay verdict:", verdicts[0], what(j, recs[0], verdicts[0][0]))
    ctx.judge([j], recs, verdicts, what=what)
    return ctx.finish()
