"""C08 - betweenness counts exactly the shortest paths through each node and edge.

mc:       spec/BrandesImpl.tla (L2: the Dijkstra/BFS + reverse-queue + back-propagation machine of
          betweenness_wei / edge_betweenness_wei / edge_betweenness_bin) and
          spec/BrandesPowerImpl.tla (L2: the matrix-power machine of betweenness_bin) refine
          spec/Betweenness.tla (L0: sigma counts by explicit enumeration of minimum-length paths),
          with queue / phase / dependency invariants and the oracle cross-check
          enumeration = distance+predecessor counting, on every small input.
gen/run:  the four routines on every TLC-enumerated model graph (directed and undirected,
          disconnected included), binary and with tie-rich integer lengths, plus seeded random
          graphs with 6..10 nodes.
validate: spec/Trace_Betweenness.tla judges every record (exact fractions vs observed 10^-6
          fixed point).
"""
import random

import numpy as np

from .. import core, encode, inputs, pool
from . import rel_common as rc

FNS = ["betweenness_bin", "betweenness_wei", "edge_betweenness_bin", "edge_betweenness_wei"]
NODE_OF = {"edge_betweenness_bin": "betweenness_bin", "edge_betweenness_wei": "betweenness_wei"}
TRACE = ("Trace_Betweenness.tla", "Trace_Betweenness.cfg")


# what each routine may be handed for a drawn dtype (rel_common.admissible): the *_bin routines
# are documented for binary networks (bool allowed); betweenness_bin copies its argument to float
# first (uint8 allowed), the other three work in the argument's dtype; every output is a sum of
# fractions (real-valued) -> no float32 anywhere.
TRAITS = {"betweenness_bin": dict(binary=True, floats_first=True), "edge_betweenness_bin": dict(binary=True),
          "betweenness_wei": dict(), "edge_betweenness_wei": dict()}


def arg_dtype(fn, dtype):
    return rc.admissible(dtype, **TRAITS[fn])


def exec_job(job):
    import bct
    A0 = np.array(job["A"], dtype=float)
    n = len(A0)
    fn = job["fn"]
    dt, lay = job.get("draw", job.get("dtype", "float64")), job.get("layout", "C")
    rec = dict(fn=fn, n=n, A=encode.mat_int(A0), raised="", malformed="",
               bc=[], ebc=[], ref_bc=[], ref_raised="")

    def arg(name):
        """a fresh argument array for routine `name`: same lengths, drawn dtype / layout; with
        via='weights' the caller's pipeline weights -> weight_conversion(W, 'lengths') -> routine
        (the *_wei routines take a connection-LENGTH matrix; W = 1/L with 1/(1/L) == L exactly)"""
        if job.get("via") == "weights":
            W = np.zeros_like(A0)
            W[A0 != 0] = 1.0 / A0[A0 != 0]
            back = np.zeros_like(A0)
            back[W != 0] = 1.0 / W[W != 0]
            if not np.array_equal(back, A0):
                raise core.MachineryError("1/(1/L) != L for the lengths of this job")
            return bct.weight_conversion(rc.as_variant(W, "float64", lay), "lengths")
        return rc.as_variant(A0, arg_dtype(name, dt), lay)
    arg(fn)
    with np.errstate(all="ignore"):
        try:
            out = getattr(bct, fn)(arg(fn))
        except Exception as e:
            rec["raised"] = encode.exc_name(e)
            return rec
        try:
            if fn in NODE_OF:
                ebc, bc = out
                if np.shape(ebc) != (n, n):
                    raise ValueError("EBC has shape %r" % (np.shape(ebc),))
                rec["ebc"] = encode.mat_q(ebc)
            else:
                bc = out
            if np.shape(bc) != (n,):
                raise ValueError("BC has shape %r" % (np.shape(bc),))
            rec["bc"] = encode.vec_q(bc)
        except (ValueError, TypeError) as e:
            rec["malformed"] = str(e)[:100]
            rec["bc"], rec["ebc"] = [], []
            return rec
        if fn in NODE_OF:
            try:
                ref = getattr(bct, NODE_OF[fn])(arg(NODE_OF[fn]))
                rec["ref_bc"] = encode.vec_q(ref)
            except Exception as e:
                rec["ref_raised"] = encode.exc_name(e)
                rec["ref_bc"] = []
    return rec


# ----------------------------------------------------------------- inputs
def with_lengths(rng, A, und, lens):
    """same support, integer lengths drawn from `lens` (small set => many exact ties)"""
    n = len(A)
    L = np.zeros((n, n))
    for i in range(n):
        for j in range(n):
            if A[i, j] and (not und or i < j):
                v = rng.choice(lens)
                L[i, j] = v
                if und:
                    L[j, i] = v
    return L


def jobs_for(A, src, binary, variant=rc.PLAIN, via=""):
    fns = FNS if binary else ["betweenness_wei", "edge_betweenness_wei"]
    # `dtype` = what the job's own routine is handed (failure tags), `draw` = the input's draw
    return [dict(fn=fn, src=src, A=np.asarray(A).astype(int).tolist(), dtype=arg_dtype(fn, variant[0]),
                 draw=variant[0], layout=variant[1], via=via if fn.endswith("_wei") else "") for fn in fns]


def random_graph(rng):
    """every choice is an independent draw from the seeded RNG (direction x shape x density)"""
    n = rng.randint(6, 10)
    und = rng.random() < 0.5
    shape = rng.choice(["gnp", "isolated", "blocks", "bridge", "layered"])
    p = rng.choice([0.12, 0.2, 0.3, 0.5])
    A = inputs.rand_graph(rng, n, p, und=und)
    if shape == "isolated":             # isolated node(s)
        for v in rng.sample(range(n), rng.randint(1, 2)):
            A[v, :] = 0
            A[:, v] = 0
    elif shape == "blocks":             # two blocks without any connection between them
        h = rng.randint(2, n - 2)
        A[:h, h:] = 0
        A[h:, :h] = 0
    elif shape == "bridge" and not und:  # one-way bridge: second block cannot reach the first
        h = rng.randint(2, n - 2)
        A[h:, :h] = 0
    elif shape == "layered":            # layered / grid-like: many equal-length alternatives
        A = np.zeros((n, n))
        layers, v = [], 0
        while v < n:
            w = min(n - v, rng.randint(1, 3))
            layers.append(list(range(v, v + w)))
            v += w
        for a, b in zip(layers, layers[1:]):
            for i in a:
                for j in b:
                    if rng.random() < 0.85:
                        A[i, j] = 1
                        if und or rng.random() < 0.3:
                            A[j, i] = 1
    return A, und


def structured_graph(rng):
    """paths, cycles, stars, complete (bipartite) graphs, caterpillars, rings of cliques, equal /
    unequal components, isolated nodes (rel_common.structured_support), undirected or oriented"""
    name, n, edges = rc.structured_support(rng, 5, 10)
    und = rng.random() < 0.5
    if not und:
        edges = rc.orient(rng, edges)
    return name, inputs.mat_from_edges(n, edges, und=und), und


LENS = [[1, 2], [1, 2, 3], [1], [2], [3], [1, 3], [2, 3]]     # tie-rich; single values: lengths = c x hops


def build_jobs(ctx):
    rng = random.Random(ctx.seed)
    jobs = []
    fam = [("und", 3, None), ("und", 4, None), ("dir", 3, None),
           ("und", 5, None), ("dir", 4, 700 if ctx.quick else None)]
    if not ctx.quick:
        fam.append(("und", 6, 3000))
    model = []
    for kind, n, cap in fam:
        graphs = inputs.model_graphs(ctx, kind, n)
        if cap is not None:
            graphs = inputs.sample(rng, graphs, cap)
        und = kind == "und"
        for edges in graphs:
            A = inputs.mat_from_edges(n, edges, und=und)
            jobs += jobs_for(A, "model-%s%d" % (kind, n), True)
            model.append((A, "model-%s%d" % (kind, n), True))
            if edges:
                L = with_lengths(rng, A, und, rng.choice([[1, 2], [1, 2], [1, 2, 3]]))
                jobs += jobs_for(L, "model-%s%d-len" % (kind, n), False)
                model.append((L, "model-%s%d-len" % (kind, n), False))
    # a sample of the model inputs again as another argument dtype / memory layout, and through
    # the weights -> lengths pipeline
    for A, src, binary in inputs.sample(rng, model, 300 if ctx.quick else 4000):
        jobs += jobs_for(A, src + "-variant", binary,
                         rc.draw_variant(rng, rc.DT_BIN if binary else rc.DT_COUNT),
                         via=rng.choice(["", "", "weights"]))
    for k in range(250 if ctx.quick else 2500):
        if rng.random() < 0.3:
            name, A, und = structured_graph(rng)
            src = "struct-" + name
        else:
            A, und = random_graph(rng)
            src = "random"
        jobs += jobs_for(A, src, True, rc.draw_variant(rng, rc.DT_BIN, p_plain=0.4),
                         via=rng.choice(["", "", "", "weights"]))
        if ctx.quick or rng.random() < 0.5:
            jobs += jobs_for(with_lengths(rng, A, und, rng.choice(LENS)), src + "-len", False,
                             rc.draw_variant(rng, rc.DT_COUNT, p_plain=0.4),
                             via=rng.choice(["", "", "", "weights"]))
    return jobs


def what(job, rec, clause):
    if rec.get("raised"):
        return "raised %s" % rec["raised"]
    if rec.get("malformed"):
        return "malformed output: %s" % rec["malformed"]
    return "n=%d src=%s dtype=%s layout=%s%s" % (rec["n"], job.get("src"), job.get("dtype", "float64"),
                                               job.get("layout", "C"), " via=weights" if job.get("via") else "")


def run(ctx):
    q = ctx.quick
    ctx.mc("MC_Brandes.tla", "MC_Brandes_dir.cfg")
    ctx.mc("MC_Brandes.tla", "MC_Brandes_und.cfg")
    ctx.mc("MC_BrandesPower.tla", "MC_BrandesPower_dir.cfg" if q else "MC_BrandesPower_dir_thorough.cfg")
    ctx.mc("MC_BrandesPower.tla", "MC_BrandesPower_und.cfg" if q else "MC_BrandesPower_und_thorough.cfg")
    if not q:
        ctx.mc("MC_Brandes.tla", "MC_Brandes_dir_thorough.cfg")
        ctx.mc("MC_Brandes.tla", "MC_Brandes_und_thorough.cfg")
    jobs = build_jobs(ctx)
    recs = pool.run_jobs(__name__, jobs)
    verdicts = ctx.validate(*TRACE, recs, chunk=8000)
    ctx.judge(jobs, rc.tag_failures(ctx, jobs, recs, verdicts), verdicts, what)
    ctx.extra["argument_variants"] = rc.variant_counts(jobs)
    # non-trivial (measured on what the code returned / the class the spec computed): distinct
    # inputs on which some returned value is not a whole number (a tie was split) or some node
    # is unreachable from some source
    seen = set()
    for r, v in zip(recs, verdicts):
        if r.get("timeout"):
            continue
        frac = any(x % encode.Q6 for x in r["bc"]) or any(x % encode.Q6 for row in r["ebc"] for x in row)
        if frac or v[2] in ("some_source_misses_1", "some_source_misses_2plus"):
            seen.add(str(r["A"]))
    ctx.nontrivial = len(seen)
    ctx.exhaustive = True
    ctx.rule = ("every undirected graph on 3..%s nodes and every digraph on 3 nodes, %s digraphs on 4 "
                "nodes%s (TLC-enumerated; binary, and with lengths drawn from {1,2} or {1,2,3}), seeded "
                "random graphs n in 6..10 (isolated nodes, disconnected blocks, one-way bridges, layered "
                "tie-rich graphs) and structured families (paths, cycles, stars, complete, bipartite, caterpillars, "
                "rings of cliques, equal/unequal components; also oriented) with lengths from tie-rich and "
                "single-value sets; a sample of all inputs again as another argument dtype (bool/uint8/int32/int64 "
                "where the routine's domain allows it) and memory layout (Fortran, transposed, window, strided) "
                "and through weight_conversion(1/L, 'lengths'); all choices drawn from the seeded RNG; non-trivial = distinct input where a returned value is fractional "
                "(a tie was split) or some node is unreachable from some source"
                % (("5", "700 sampled", "") if q else
                   ("5", "all", ", 3000 sampled undirected graphs on 6 nodes")))
    for i in (len(jobs) // 3, len(jobs) - 1):
        ctx.add_sample(jobs[i]["src"], dict(job=jobs[i], record=recs[i], verdict=list(verdicts[i])))
    ctx.assumptions += [
        "TLC evaluates the L0 definitions correctly; definition (D) used on recorded runs is proved "
        "equal to the path enumeration (E) only on the model-checked sizes",
        "inputs: integer lengths 0..3, empty diagonal, n <= 10; outputs compared at 10^-6 (tolerance 2 "
        "units for one fraction, #fractional terms + 1 for a term-wise sum)",
        "the thorough BrandesImpl model for digraphs on 4 nodes covers every binary graph but lengths "
        "{1,2} only on graphs with <= 5 connections (the full family has 531441 members)",
    ]
    return ctx.finish()


def replay(ctx, rp):
    job = rp["job"]
    recs = pool.run_jobs(__name__, [job])
    verdicts = ctx.validate(*TRACE, recs)
    core.log("replay verdict:", verdicts[0], what(job, recs[0], verdicts[0][0]))
    ctx.judge([job], recs, verdicts, what)
    return ctx.finish()
