"""C08 - betweenness counts exactly the shortest paths through each node and edge.

mc:       spec/BrandesImpl.tla (L2: the Dijkstra/BFS + reverse-queue + back-propagation machine of
          betweenness_wei / edge_betweenness_wei / edge_betweenness_bin) and
          spec/BrandesPowerImpl.tla (L2: the matrix-power machine of betweenness_bin) refine
          spec/Betweenness.tla (L0: sigma counts by explicit enumeration of minimum-length paths),
          with queue / phase / dependency invariants and the oracle cross-check
          enumeration = distance+predecessor counting, on every small input.
gen/run:  the four routines on every TLC-enumerated model graph (directed and undirected,
          disconnected included), binary and with tie-rich integer lengths, plus seeded random
          graphs with 6..10 nodes.
validate: spec/Trace_Betweenness.tla judges every record (exact fractions vs observed 10^-6
          fixed point).
scale:    besides "all small inputs" a seeded family of CHAINS OF GADGETS (spec/BetweennessChain.tla;
          MC_BetweennessChain proves the composition operator equal to the definitions on small
          chains): 130..400 nodes, 2^20 / 2^40 / 2^70 / 3^40 / 3^85 tied shortest paths, walk counts
          beyond 2^63 / 3.4e38 (clique + long path), lengths b * 2^e with e sweeping -13..13 along
          100+-hop chains, wide frontiers (bundles), dense blocks, one-way / unreachable gadgets at
          scale, int8 / int16 argument arrays.  TLC judges the exact values, the zero pattern of
          the connection matrix and "edge routine node vector = node routine".
"""
import math
import random
import time

import numpy as np

from .. import core, encode, inputs, pool
from . import rel_common as rc

FNS = ["betweenness_bin", "betweenness_wei", "edge_betweenness_bin", "edge_betweenness_wei"]
NODE_OF = {"edge_betweenness_bin": "betweenness_bin", "edge_betweenness_wei": "betweenness_wei"}
TRACE = ("Trace_Betweenness.tla", "Trace_Betweenness.cfg")


# what each routine may be handed for a drawn dtype (rel_common.admissible): the *_bin routines
# are documented for binary networks (bool allowed); betweenness_bin copies its argument to float
# first (uint8 allowed), the other three work in the argument's dtype; every output is a sum of
# fractions (real-valued) -> no float32 anywhere.
TRAITS = {"betweenness_bin": dict(binary=True, floats_first=True), "edge_betweenness_bin": dict(binary=True),
          "betweenness_wei": dict(), "edge_betweenness_wei": dict()}


def arg_dtype(fn, dtype):
    return rc.admissible(dtype, **TRAITS[fn])


def exec_job(job):
    import bct
    if job.get("kind") == "chain":
        return exec_chain(job)
    A0 = np.array(job["A"], dtype=float)
    n = len(A0)
    fn = job["fn"]
    dt, lay = job.get("draw", job.get("dtype", "float64")), job.get("layout", "C")
    rec = dict(fn=fn, kind="small", n=n, A=encode.mat_int(A0), raised="", malformed="",
               bc=[], ebc=[], ref_bc=[], ref_raised="")

    def arg(name):
        """a fresh argument array for routine `name`: same lengths, drawn dtype / layout; with
        via='weights' the caller's pipeline weights -> weight_conversion(W, 'lengths') -> routine
        (the *_wei routines take a connection-LENGTH matrix; W = 1/L with 1/(1/L) == L exactly)"""
        if job.get("via") == "weights":
            W = np.zeros_like(A0)
            W[A0 != 0] = 1.0 / A0[A0 != 0]
            back = np.zeros_like(A0)
            back[W != 0] = 1.0 / W[W != 0]
            if not np.array_equal(back, A0):
                raise core.MachineryError("1/(1/L) != L for the lengths of this job")
            return bct.weight_conversion(rc.as_variant(W, "float64", lay), "lengths")
        return rc.as_variant(A0, job.get("raw_dtype") or arg_dtype(name, dt), lay)
    arg(fn)
    with np.errstate(all="ignore"):
        try:
            out = getattr(bct, fn)(arg(fn))
        except Exception as e:
            rec["raised"] = encode.exc_name(e)
            return rec
        try:
            if fn in NODE_OF:
                ebc, bc = out
                if np.shape(ebc) != (n, n):
                    raise ValueError("EBC has shape %r" % (np.shape(ebc),))
                rec["ebc"] = encode.mat_q(ebc)
            else:
                bc = out
            if np.shape(bc) != (n,):
                raise ValueError("BC has shape %r" % (np.shape(bc),))
            rec["bc"] = encode.vec_q(bc)
        except (ValueError, TypeError) as e:
            rec["malformed"] = str(e)[:100]
            rec["bc"], rec["ebc"] = [], []
            return rec
        if fn in NODE_OF:
            try:
                ref = getattr(bct, NODE_OF[fn])(arg(NODE_OF[fn]))
                rec["ref_bc"] = encode.vec_q(ref)
            except Exception as e:
                rec["ref_raised"] = encode.exc_name(e)
                rec["ref_bc"] = []
    return rec


# ----------------------------------------------------------------- inputs
def with_lengths(rng, A, und, lens):
    """same support, integer lengths drawn from `lens` (small set => many exact ties)"""
    n = len(A)
    L = np.zeros((n, n))
    for i in range(n):
        for j in range(n):
            if A[i, j] and (not und or i < j):
                v = rng.choice(lens)
                L[i, j] = v
                if und:
                    L[j, i] = v
    return L


def jobs_for(A, src, binary, variant=rc.PLAIN, via=""):
    fns = FNS if binary else ["betweenness_wei", "edge_betweenness_wei"]
    # `dtype` = what the job's own routine is handed (failure tags), `draw` = the input's draw
    return [dict(fn=fn, src=src, A=np.asarray(A).astype(int).tolist(), dtype=arg_dtype(fn, variant[0]),
                 draw=variant[0], layout=variant[1], via=via if fn.endswith("_wei") else "") for fn in fns]


def random_graph(rng):
    """every choice is an independent draw from the seeded RNG (direction x shape x density)"""
    n = rng.randint(6, 10)
    und = rng.random() < 0.5
    shape = rng.choice(["gnp", "isolated", "blocks", "bridge", "layered"])
    p = rng.choice([0.12, 0.2, 0.3, 0.5])
    A = inputs.rand_graph(rng, n, p, und=und)
    if shape == "isolated":             # isolated node(s)
        for v in rng.sample(range(n), rng.randint(1, 2)):
            A[v, :] = 0
            A[:, v] = 0
    elif shape == "blocks":             # two blocks without any connection between them
        h = rng.randint(2, n - 2)
        A[:h, h:] = 0
        A[h:, :h] = 0
    elif shape == "bridge" and not und:  # one-way bridge: second block cannot reach the first
        h = rng.randint(2, n - 2)
        A[h:, :h] = 0
    elif shape == "layered":            # layered / grid-like: many equal-length alternatives
        A = np.zeros((n, n))
        layers, v = [], 0
        while v < n:
            w = min(n - v, rng.randint(1, 3))
            layers.append(list(range(v, v + w)))
            v += w
        for a, b in zip(layers, layers[1:]):
            for i in a:
                for j in b:
                    if rng.random() < 0.85:
                        A[i, j] = 1
                        if und or rng.random() < 0.3:
                            A[j, i] = 1
    return A, und


def structured_graph(rng):
    """paths, cycles, stars, complete (bipartite) graphs, caterpillars, rings of cliques, equal /
    unequal components, isolated nodes (rel_common.structured_support), undirected or oriented"""
    name, n, edges = rc.structured_support(rng, 5, 10)
    und = rng.random() < 0.5
    if not und:
        edges = rc.orient(rng, edges)
    return name, inputs.mat_from_edges(n, edges, und=und), und


LENS = [[1, 2], [1, 2, 3], [1], [2], [3], [1, 3], [2, 3]]     # tie-rich; single values: lengths = c x hops


def build_jobs(ctx):
    rng = random.Random(ctx.seed)
    jobs = []
    fam = [("und", 3, None), ("und", 4, None), ("dir", 3, None),
           ("und", 5, None), ("dir", 4, 700 if ctx.quick else None)]
    if not ctx.quick:
        fam.append(("und", 6, 3000))
    model = []
    for kind, n, cap in fam:
        graphs = inputs.model_graphs(ctx, kind, n)
        if cap is not None:
            graphs = inputs.sample(rng, graphs, cap)
        und = kind == "und"
        for edges in graphs:
            A = inputs.mat_from_edges(n, edges, und=und)
            jobs += jobs_for(A, "model-%s%d" % (kind, n), True)
            model.append((A, "model-%s%d" % (kind, n), True))
            if edges:
                L = with_lengths(rng, A, und, rng.choice([[1, 2], [1, 2], [1, 2, 3]]))
                jobs += jobs_for(L, "model-%s%d-len" % (kind, n), False)
                model.append((L, "model-%s%d-len" % (kind, n), False))
    # a sample of the model inputs again as another argument dtype / memory layout, and through
    # the weights -> lengths pipeline
    for A, src, binary in inputs.sample(rng, model, 300 if ctx.quick else 4000):
        jobs += jobs_for(A, src + "-variant", binary,
                         rc.draw_variant(rng, rc.DT_BIN if binary else rc.DT_COUNT),
                         via=rng.choice(["", "", "weights"]))
    for k in range(250 if ctx.quick else 2500):
        if rng.random() < 0.3:
            name, A, und = structured_graph(rng)
            src = "struct-" + name
        else:
            A, und = random_graph(rng)
            src = "random"
        jobs += jobs_for(A, src, True, rc.draw_variant(rng, rc.DT_BIN, p_plain=0.4),
                         via=rng.choice(["", "", "", "weights"]))
        if ctx.quick or rng.random() < 0.5:
            jobs += jobs_for(with_lengths(rng, A, und, rng.choice(LENS)), src + "-len", False,
                             rc.draw_variant(rng, rc.DT_COUNT, p_plain=0.4),
                             via=rng.choice(["", "", "", "weights"]))
    # lengths of mixed magnitude held in float32 (seed round 7): every single length (1, 2, 3, 2^24) is
    # exact in float32, sums such as 2^24 + 1 are not - routes that differ by one unit tie when a path length
    # is accumulated in the argument's type.  The unchanged routines accumulate in float64.
    for k in range(60 if ctx.quick else 600):
        A, und = random_graph(rng)
        L = with_lengths(rng, A, und, [1, 2, 3, 2 ** 24, 2 ** 24])
        if k % 2:
            # two groups of nodes far apart: connections inside a group are short (1..3), every connection
            # between the groups is long (2^24) - all routes from one group to the other carry exactly one
            # long connection and differ by a few units
            L = with_lengths(rng, A, und, [1, 2, 3])
            side = [rng.random() < 0.5 for _ in range(len(L))]
            for a in range(len(L)):
                for b in range(len(L)):
                    if L[a, b] and side[a] != side[b]:
                        L[a, b] = 2 ** 24
        for j in jobs_for(L, "random-mixed-f32", False):
            jobs.append(dict(j, raw_dtype="float32", dtype="float32", draw="float32"))
    return jobs


# ----------------------------------------------------------------- scale regime
# Chains of gadgets (spec/BetweennessChain.tla).  A gadget is (m, A): a small length matrix whose
# local node 0 is its `in` and local node m-1 its `out` terminal; consecutive gadgets share a
# junction node; gadget k's lengths are multiplied by 2**e_k.  Python only assembles the matrix and
# encodes what came back; the expected values are TLC's (composition of local exact fractions).
def wf(x):
    """value -> [whole part, 10^-6 part] (floor + fraction), clipped like encode.e_int"""
    x = float(x)
    if math.isnan(x):
        return [encode.NAN, 0]
    if math.isinf(x) or abs(x) >= encode.INF:
        return [encode.INF if x > 0 else encode.NINF, 0]
    w = math.floor(x)
    return [int(w), int(round((x - w) * encode.Q6))]


def mant_exp(v):
    """positive finite float -> (odd integer mantissa, exponent), v == mant * 2**exp exactly"""
    m, e = math.frexp(float(v))
    while m != int(m):
        m *= 2
        e -= 1
    return int(m), e


def chain_matrix(lib, seq):
    n = 1 + sum(lib[t - 1]["m"] - 1 for t, _ in seq)
    A = np.zeros((n, n))
    off = 0
    for t, e in seq:
        g = lib[t - 1]
        m = g["m"]
        A[off:off + m, off:off + m] += np.ldexp(np.array(g["A"], dtype=float), e)
        off += m - 1
    return A


_BLAS_SET = []


def single_thread_blas():
    """best effort, worker processes only: 16 workers x a multi-threaded matrix product per call
    make the matrix-power routine 50x slower on a busy machine; the values do not depend on it"""
    if _BLAS_SET:
        return
    _BLAS_SET.append(1)
    try:
        import ctypes
        import glob
        import os
        for lib in glob.glob(os.path.join(os.path.dirname(np.__file__), "..", "numpy.libs", "libscipy_openblas*.so*")):
            h = ctypes.CDLL(lib)
            for name in ("scipy_openblas_set_num_threads64_", "scipy_openblas_set_num_threads",
                         "openblas_set_num_threads64_", "openblas_set_num_threads"):
                if hasattr(h, name):
                    getattr(h, name)(1)
                    break
    except Exception:
        pass


def exec_chain(job):
    import bct
    single_thread_blas()
    fn = job["fn"]
    A0 = chain_matrix(job["lib"], job["seq"])
    n = len(A0)
    dt, lay = job.get("draw", "float64"), job.get("layout", "C")
    rec = dict(fn=fn, kind="chain", n=n, lib=job["lib"], seq=job["seq"], edges=[], raised="", malformed="",
               bc_w=[], bc_f=[], ebc_w=[], ebc_f=[], ebc_off=0, ref_w=[], ref_f=[], ref_raised="")

    def arg(name):
        if job.get("via") == "weights":
            W = np.zeros_like(A0)
            W[A0 != 0] = 1.0 / A0[A0 != 0]
            back = np.zeros_like(A0)
            back[W != 0] = 1.0 / W[W != 0]
            if not np.array_equal(back, A0):
                raise core.MachineryError("1/(1/L) != L for the lengths of this job")
            return bct.weight_conversion(rc.as_variant(W, "float64", lay), "lengths")
        return rc.as_variant(A0, arg_dtype(name, dt), lay)
    # the connections of the matrix the routine is actually handed
    B = np.array(arg(fn), dtype=float)
    ii, jj = np.nonzero(B)
    for i, j in zip(ii.tolist(), jj.tolist()):
        mnt, ex = mant_exp(B[i, j])
        rec["edges"].append([i + 1, j + 1, mnt, ex])
    with np.errstate(all="ignore"):
        try:
            out = getattr(bct, fn)(arg(fn))
        except Exception as e:
            rec["raised"] = encode.exc_name(e)
            return rec
        try:
            if fn in NODE_OF:
                ebc, bc = out
                ebc = np.asarray(ebc, dtype=float)
                if np.shape(ebc) != (n, n):
                    raise ValueError("EBC has shape %r" % (np.shape(ebc),))
                vals = [wf(ebc[i, j]) for i, j in zip(ii.tolist(), jj.tolist())]
                rec["ebc_w"], rec["ebc_f"] = [v[0] for v in vals], [v[1] for v in vals]
                rec["ebc_off"] = int(np.count_nonzero((ebc != 0) & (B == 0)))
            else:
                bc = out
            if np.shape(bc) != (n,):
                raise ValueError("BC has shape %r" % (np.shape(bc),))
            vals = [wf(v) for v in np.asarray(bc, dtype=float)]
            rec["bc_w"], rec["bc_f"] = [v[0] for v in vals], [v[1] for v in vals]
        except (ValueError, TypeError) as e:
            rec["malformed"] = str(e)[:100]
            for k in ("bc_w", "bc_f", "ebc_w", "ebc_f"):
                rec[k] = []
            return rec
        if fn in NODE_OF:
            if not job.get("ref", True):
                rec["ref_raised"] = "not_run"          # the node routine is too slow at this size
            else:
                try:
                    vals = [wf(v) for v in np.asarray(getattr(bct, NODE_OF[fn])(arg(NODE_OF[fn])), dtype=float).ravel()]
                    rec["ref_w"], rec["ref_f"] = [v[0] for v in vals], [v[1] for v in vals]
                except Exception as e:
                    rec["ref_raised"] = encode.exc_name(e)
    return rec


def _und(m, pairs):
    A = np.zeros((m, m), dtype=int)
    for i, j, v in pairs:
        A[i, j] = A[j, i] = v
    return A


def _dir(m, pairs):
    A = np.zeros((m, m), dtype=int)
    for i, j, v in pairs:
        A[i, j] = v
    return A


TIES = {2: [(1, 3), (2, 2)], 3: [(1, 3), (2, 2), (3, 1)]}


def g_edge(und=True, b=1):
    return (_und if und else _dir)(2, [(0, 1, b)])


def g_bundle(w, und=True, weighted=False):
    """in - w parallel middle nodes - out: w tied routes (w=2: a 'diamond'); weighted: the routes
    have different first / second lengths with the same total (w <= 3)"""
    lens = TIES[w] if weighted else [(1, 1)] * w
    pairs = []
    for x, (a, b) in enumerate(lens):
        pairs += [(0, 1 + x, a), (1 + x, w + 1, b)]
    return (_und if und else _dir)(w + 2, pairs)


def g_clique(m):
    return _und(m, [(i, j, 1) for i in range(m) for j in range(i + 1, m)])


def g_cycle(m, und=True):
    """a cycle through in (0) and out (m-1), out half way round: two routes, tied when m is even"""
    h = m // 2
    ring = [0] + list(range(1, h)) + [m - 1] + list(range(h, m - 1))
    pairs = [(ring[i], ring[(i + 1) % m], 1) for i in range(m)]
    return (_und if und else _dir)(m, pairs)


def g_random(rng, und, lens):
    """any small graph (its terminals need not be connected).  Sizes keep every local number of
    tied shortest paths <= 7, hence the common denominator of a chain <= 420 (spec: DenMax)"""
    m = rng.randint(3, 7 if lens == [1] else 5)
    A = inputs.rand_graph(rng, m, rng.choice([0.3, 0.5, 0.7]), und=und)
    return np.asarray(with_lengths(rng, np.asarray(A), und, lens)).astype(int)


def diameter_hops(A):
    """largest finite hop distance and largest out-degree (input shaping only: which inputs the
    matrix-power routine can be given within the time budget)"""
    n = len(A)
    nb = [np.flatnonzero(A[i]).tolist() for i in range(n)]
    best = 0
    for s in range(n):
        dist = {s: 0}
        front = [s]
        while front:
            nxt = []
            for u in front:
                for v in nb[u]:
                    if v not in dist:
                        dist[v] = dist[u] + 1
                        nxt.append(v)
            front = nxt
        best = max(best, max(dist.values()))
    return best, max(len(x) for x in nb)


def chain_families(rng, quick):
    """-> [(name, [(gadget, exponent), ...])]; every choice from the seeded RNG"""
    out = []
    und = lambda: rng.random() < 0.6

    def rep(g, k, e=0):
        return [(g, e)] * k
    # (a) 2^K tied paths: K ~ 20 (beyond int16 / float16), ~ 40 (int32, float32's 24 bits), ~ 70 (int64)
    for lo, hi in ([(18, 24), (38, 44), (64, 70)] if quick else [(18, 24), (30, 34), (38, 44), (52, 56), (64, 75), (100, 130)]):
        for weighted in ((rng.random() < 0.5,) if quick else (False, True)):
            out.append(("diamonds", rep(g_bundle(2, und(), weighted), rng.randint(lo, hi))))
    # (b) 3^K tied paths (not powers of two: inexact in double precision beyond 2^53; 3^81 > 3.4e38)
    #     (3^16 > 2^24: single precision is inexact already on a chain the matrix-power routine gets)
    for lo, hi in ([(16, 20), (36, 45)] if quick else [(16, 20), (36, 45), (60, 70), (82, 90), (120, 130)]):
        # (one-way chains: no closed walks, the matrix-power routine's walk counts ARE the path counts)
        out.append(("triple-routes", rep(g_bundle(3, rng.random() < 0.4, rng.random() < 0.5), rng.randint(lo, hi))))
    #     w^K > 2^64 tied paths on a chain short enough for the matrix-power routine (w = 4..6 routes)
    for _ in range(1 if quick else 3):
        w = rng.choice([4, 5, 6])
        out.append(("many-routes", rep(g_bundle(w, und()), int(64 / math.log2(w)) + rng.randint(2, 5))))
    # (c) long paths: node counts beyond int8 / uint8 (and int16-sized products n*n)
    for lo, hi in ([(130, 150), (257, 270)] if quick else [(128, 129), (130, 160), (200, 256), (257, 300), (330, 400)]):
        u = und()
        out.append(("long-path", rep(g_edge(u, 1), rng.randint(lo, hi))))
    # (d) clique + long path: the walk counts of the matrix-power routine pass 2^63 and 3.4e38
    for lo, hi in ([(24, 30), (48, 60)] if quick else [(24, 30), (48, 60), (90, 110), (150, 170)]):
        c = [(g_clique(rng.randint(6, 9)), 0)]
        p = rep(g_edge(True), rng.randint(lo, hi))
        out.append(("clique+path", c + p if rng.random() < 0.5 else p + c))
    if not quick:
        # ... and the largest double (23^227 > 1.8e308): every routine must still return the exact values
        out.append(("clique+path-walks-beyond-1e308", [(g_clique(24), 0)] + rep(g_edge(True), rng.randint(230, 240))))
    # (e) lengths b * 2^e, e sweeping -13..13 (1e-4 .. 1e4) along a chain of 100+ hops with ties and
    #     near-ties; every sweep has rising and falling stretches (a short length after long ones is
    #     where a narrow or tolerant distance comparison goes wrong), whatever the direction of travel
    for sweep in ([rng.choice(["hill", "valley"]), rng.choice(["zigzag", "random"])] if quick
                  else ["hill", "valley", "zigzag", "random", "hill", "valley"]):
        u = und()
        pool_ = [g_edge(u, 1), g_edge(u, 3), g_bundle(2, u, True), g_bundle(3, u, True),
                 _und(3, [(0, 1, 1), (1, 2, 1), (0, 2, 2)]), _und(3, [(0, 1, 1), (1, 2, 2), (0, 2, 2)])]
        k = rng.randint(60, 90)
        ch = []
        for i in range(k):
            tri = abs(26 - (52 * i) // (k - 1))                      # 26 .. 0 .. 26
            e = {"hill": 13 - tri, "valley": tri - 13,
                 "zigzag": 13 if i % 2 else -13, "random": rng.randint(-13, 13)}[sweep]
            ch.append((rng.choice(pool_), e))
        out.append(("length-sweep-" + sweep, ch))
    # (f) wide frontiers / many nodes at a small diameter (bundles of 8..48 routes)
    for _ in range(1 if quick else 3):
        u = und()
        widths = [8, 12, 16, 24] if quick else [8, 12, 16, 24, 30, 40, 48]
        ws = [rng.choice(widths) for _ in range(rng.randint(3, 5))]
        while sum(w + 1 for w in ws) < 130:
            ws.append(rng.choice(widths))
        out.append(("bundles", [(g_bundle(w, u), 0) for w in ws]))
    # (f2) beyond the block sizes a blocked implementation would use (1000 / 1024 rows): 1030..1300
    #      nodes at a small diameter - two to three dozen bundles of 24..48 routes
    for _ in range(1 if quick else 2):
        u = und()
        while True:                     # (the chain operator's 32-bit budget ends at 1200 nodes)
            ws = [rng.choice([24, 30, 40, 48]) for _ in range(rng.randint(24, 36))]
            if 1030 <= sum(w + 1 for w in ws) + 1 <= 1190:
                break
        out.append(("bundles-beyond-1024-nodes", [(g_bundle(w, u), 0) for w in ws]))
    # (g) mixed chains: any small random gadgets (one-way, unreachable terminals), cliques (dense
    #     blocks), bundles, cycles; binary or with tie-rich lengths
    for i in range(3 if quick else 12):
        binary = rng.random() < 0.5
        lens = [1] if binary else rng.choice(LENS)
        k = rng.randint(4, 10) if i % 3 == 0 else rng.randint(25, 60)      # 17..40 nodes / 130+ nodes
        ch = []
        for _ in range(k):
            kind = rng.choice(["random", "random", "random-dir", "clique", "bundle", "cycle", "edge", "arc"])
            if kind == "random":
                g = g_random(rng, True, lens)
            elif kind == "random-dir":
                g = g_random(rng, False, lens)
            elif kind == "clique":
                g = g_clique(rng.randint(3, 12))
            elif kind == "bundle":
                g = g_bundle(rng.choice([2, 3, 4, 5, 6]), und())
            elif kind == "cycle":
                g = g_cycle(rng.randint(4, 8), und())
            else:
                g = g_edge(kind == "edge", rng.choice(lens))
            ch.append((g, 0))
        out.append(("mixed", ch))
    return out


INT_SMALL = ("int8", "int16")      # signed narrow integer arrays: 0/1 and lengths 1..3 fit


def chain_jobs(rng, name, chain, bin_budget):
    lib, index, seq = [], {}, []
    for g, e in chain:
        key = (len(g), tuple(int(v) for v in np.asarray(g).ravel()))
        if key not in index:
            lib.append(dict(m=len(g), A=np.asarray(g).astype(int).tolist()))
            index[key] = len(lib)
        seq.append([index[key], int(e)])
    A = chain_matrix(lib, seq)
    n = len(A)
    binary = bool(np.all((A == 0) | (A == 1)))
    scaled = any(e for _, e in seq)
    fam = (rc.DT_BIN if binary else rc.DT_COUNT) + INT_SMALL
    variant = (("float64", rng.choice(rc.LAYOUTS)) if scaled else rc.draw_variant(rng, fam, p_plain=0.3))
    via = rng.choice(["", "", "", "weights"])
    fns = list(FNS) if binary else ["betweenness_wei", "edge_betweenness_wei"]
    slow = False
    if binary:
        diam, deg = diameter_hops(A)
        # the matrix-power routine costs diam products of n x n matrices (and forms the number of
        # WALKS of every length <= diam, at most deg^diam)
        slow = float(n) ** 3 * diam > bin_budget or diam * math.log10(max(deg, 2)) > 290
        if name.endswith("beyond-1e308") or name.endswith("beyond-1024-nodes"):
            slow = False
        if slow:
            fns.remove("betweenness_bin")
    jobs = []
    for fn in fns:
        jobs.append(dict(fn=fn, kind="chain", src="scale-" + name, n=n, lib=lib, seq=seq,
                         dtype=arg_dtype(fn, variant[0]), draw=variant[0], layout=variant[1],
                         via=via if fn.endswith("_wei") else "",
                         ref=not ((slow or name.endswith("beyond-1e308")) and fn == "edge_betweenness_bin")))
    return jobs


def build_scale_jobs(ctx):
    rng = random.Random("C08-scale-%s" % ctx.seed)
    jobs = []
    for name, chain in chain_families(rng, ctx.quick):
        jobs += chain_jobs(rng, name, chain, 2e9 if ctx.quick else 1.5e10)
    return jobs


def what(job, rec, clause):
    if rec.get("raised"):
        return "raised %s" % rec["raised"]
    if rec.get("malformed"):
        return "malformed output: %s" % rec["malformed"]
    return "n=%d src=%s dtype=%s layout=%s%s" % (rec["n"], job.get("src"), job.get("dtype", "float64"),
                                               job.get("layout", "C"), " via=weights" if job.get("via") else "")


def run(ctx):
    q = ctx.quick
    # composition operator of the scale regime = definitions (E) / (D) on small chains
    ctx.mc("MC_BetweennessChain.tla", "MC_BetweennessChain_quick.cfg")
    if not q:
        ctx.parallel([lambda: ctx.mc("MC_BetweennessChain.tla", "MC_BetweennessChain_pairs.cfg", workers=8),
                      lambda: ctx.mc("MC_BetweennessChain.tla", "MC_BetweennessChain_triples.cfg", workers=8)], width=2)
    ctx.mc("MC_Brandes.tla", "MC_Brandes_dir.cfg")
    ctx.mc("MC_Brandes.tla", "MC_Brandes_und.cfg")
    ctx.mc("MC_BrandesPower.tla", "MC_BrandesPower_dir.cfg" if q else "MC_BrandesPower_dir_thorough.cfg")
    ctx.mc("MC_BrandesPower.tla", "MC_BrandesPower_und.cfg" if q else "MC_BrandesPower_und_thorough.cfg")
    if not q:
        ctx.mc("MC_Brandes.tla", "MC_Brandes_dir_thorough.cfg")
        ctx.mc("MC_Brandes.tla", "MC_Brandes_und_thorough.cfg")
    jobs = build_jobs(ctx)
    recs = pool.run_jobs(__name__, jobs, reuse=True, abort=True, strict_fp=True)
    verdicts = ctx.validate(*TRACE, recs, chunk=8000)
    # scale regime: few, large inputs; their own time limit and validation batch
    sjobs = build_scale_jobs(ctx)
    t0 = time.time()
    # (the input on which the walk counts pass the largest double goes last, with a limit of its own:
    # a routine that spins on it must not hold up the tier)
    late = [k for k, j in enumerate(sjobs) if j["src"].endswith("beyond-1e308") and j["fn"] == "betweenness_bin"]
    sjobs = [j for k, j in enumerate(sjobs) if k not in late] + [sjobs[k] for k in late]
    cut = len(sjobs) - len(late)
    srecs = pool.run_jobs(__name__, sjobs[:cut], limit=240.0 if q else 900.0)
    if late:
        srecs += pool.run_jobs(__name__, sjobs[cut:], limit=150.0)
    core.log("  scale regime: %d calls on chains of %d..%d nodes %.1fs" % (
        len(sjobs), min(j["n"] for j in sjobs), max(j["n"] for j in sjobs), time.time() - t0))
    sverd = ctx.validate(*TRACE, srecs, tag="Trace_Betweenness_scale", chunk=400)
    bad = [(j["src"], v[0]) for j, r, v in zip(sjobs, srecs, sverd) if v[0].startswith("skip:") and not r.get("timeout")]
    if bad:
        raise core.MachineryError("scale-regime records outside the spec's domain: %r" % bad[:3])
    ctx.extra["scale_regime"] = dict(
        records=len(sjobs), no_return_within_limit=["%s(n=%d) %s" % (j["src"], j["n"], j["fn"])
                                                    for j, r in zip(sjobs, srecs) if r.get("timeout")],
        max_nodes=max(j["n"] for j in sjobs),
        families=sorted(set(j["src"] for j in sjobs)),
        not_given_to_betweenness_bin=sorted(set("%s(n=%d)" % (j["src"], j["n"]) for j in sjobs
                                                if j["fn"] == "edge_betweenness_bin" and not j["ref"])))
    jobs, recs, verdicts = jobs + sjobs, recs + srecs, verdicts + sverd
    ctx.judge(jobs, rc.tag_failures(ctx, jobs, recs, verdicts), verdicts, what)
    ctx.extra["argument_variants"] = rc.variant_counts(jobs)
    # non-trivial (measured on what the code returned / the class the spec computed): distinct
    # inputs on which some returned value is not a whole number (a tie was split) or some node
    # is unreachable from some source
    seen = set()
    for r, v in zip(recs, verdicts):
        if r.get("timeout"):
            continue
        if r.get("kind") == "chain":
            frac = any(x % encode.Q6 for x in r["bc_f"] + r["ebc_f"])
            if frac or v[2] == "chain_some_unreachable":
                seen.add(str((r["lib"], r["seq"])))
            continue
        frac = any(x % encode.Q6 for x in r["bc"]) or any(x % encode.Q6 for row in r["ebc"] for x in row)
        if frac or v[2] in ("some_source_misses_1", "some_source_misses_2plus"):
            seen.add(str(r["A"]))
    ctx.nontrivial = len(seen)
    ctx.exhaustive = True
    ctx.rule = ("every undirected graph on 3..%s nodes and every digraph on 3 nodes, %s digraphs on 4 "
                "nodes%s (TLC-enumerated; binary, and with lengths drawn from {1,2} or {1,2,3}), seeded "
                "random graphs n in 6..10 (isolated nodes, disconnected blocks, one-way bridges, layered "
                "tie-rich graphs) and structured families (paths, cycles, stars, complete, bipartite, caterpillars, "
                "rings of cliques, equal/unequal components; also oriented) with lengths from tie-rich and "
                "single-value sets; a sample of all inputs again as another argument dtype (bool/uint8/int32/int64 "
                "where the routine's domain allows it) and memory layout (Fortran, transposed, window, strided) "
                "and through weight_conversion(1/L, 'lengths'); a scale-regime family of chains of gadgets with "
                "130..400 nodes (2^20..2^70 and 3^40..3^85 tied paths, long paths, clique+long path, lengths "
                "b*2^e with e in -13..13 along 100+ hops, bundles, mixed random gadgets; int8/int16 arrays too) "
                "judged against the composition of local exact fractions; all choices drawn from the seeded RNG; non-trivial = distinct input where a returned value is fractional "
                "(a tie was split) or some node is unreachable from some source"
                % (("5", "700 sampled", "") if q else
                   ("5", "all", ", 3000 sampled undirected graphs on 6 nodes")))
    for i in (len(jobs) // 3, len(jobs) - 1):
        ctx.add_sample(jobs[i]["src"], dict(job=jobs[i], record=recs[i], verdict=list(verdicts[i])))
    ctx.assumptions += [
        "TLC evaluates the L0 definitions correctly; definition (D) used on recorded runs is proved "
        "equal to the path enumeration (E) only on the model-checked sizes",
        "inputs: integer lengths 0..3, empty diagonal, n <= 10; outputs compared at 10^-6 (tolerance 2 "
        "units for one fraction, #fractional terms + 1 for a term-wise sum)",
        "scale regime: only chains of gadgets (junctions are cut nodes), n <= 1200, local tie counts with "
        "common denominator <= 1000; expected values by composition (BetweennessChain!ChainNodeNum / "
        "ChainEdgeNum), proved equal to the definitions only on the chains of MC_BetweennessChain; the sum "
        "identities are not judged separately there; betweenness_bin is given only the chains it finishes "
        "within the time budget (n^3 * diameter) and whose walk counts stay below 1e290",
        "the thorough BrandesImpl model for digraphs on 4 nodes covers every binary graph but lengths "
        "{1,2} only on graphs with <= 5 connections (the full family has 531441 members)",
    ]
    return ctx.finish()


def replay(ctx, rp):
    job = rp["job"]
    recs = pool.run_jobs(__name__, [job], limit=240.0)
    verdicts = ctx.validate(*TRACE, recs)
    core.log("replay verdict:", verdicts[0], what(job, recs[0], verdicts[0][0]))
    ctx.judge([job], recs, verdicts, what)
    return ctx.finish()
