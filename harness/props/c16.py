"""C16 - connected components are the classes of mutually reachable nodes.

mc:       spec/MergeImpl.tla (L2 edge-scan machine) refines Components (L0) for every
          undirected graph on N nodes, with the partial-merge invariants.
gen/run:  get_components / number_of_components / distance_bin / breadthdist /
          reachdist on every model graph (TLC-enumerated) decorated with weights and
          diagonals, asymmetric inputs, and random larger graphs.
validate: spec/Trace_Components.tla judges every record.
"""
import random

import numpy as np

from .. import core, encode, inputs, pool

FN = "get_components"


def exec_job(job):
    import bct
    A = np.array(job["A"], dtype=float)
    # the matrix as a caller might hold it: integer / boolean / unsigned types, Fortran order or a
    # view into a larger array (the record keeps the values)
    dt = job.get("dtype")
    if dt == "bool":
        if np.isin(A, (0, 1)).all():
            A = A.astype(bool)
    elif dt == "uint8":
        if (A >= 0).all():
            A = A.astype("uint8")
    elif dt:
        A = A.astype({"int": int}.get(dt, dt))
    if job.get("layout") == "F":
        A = np.asfortranarray(A)
    elif job.get("layout") == "view":
        big = np.zeros((len(A) + 1, len(A) + 2), dtype=A.dtype)
        big[1:, 2:] = A
        A = big[1:, 2:]
    n = len(A)
    rec = dict(fn=FN, n=n, A=encode.mat_int(np.array(job["A"], dtype=float)), raised="", malformed="",
               comps=[], sizes=[], ncomp=-1, dbin=[], dbreadth=[], dreach=[])
    A0 = A.copy()
    if job.get("layout") == "matrix":      # an np.matrix (np.asmatrix, sparse .todense()): get_components takes it
        A = np.asmatrix(A)
    try:
        comps, sizes = bct.get_components(A)
    except Exception as e:
        rec["raised"] = encode.exc_name(e)
        return rec
    try:
        rec["comps"] = encode.vec_int(comps)
        rec["sizes"] = encode.vec_int(sizes)
        rec["ncomp"] = encode.e_int(bct.number_of_components(A0.copy()))
        rec["dbin"] = encode.mat_int(bct.distance_bin(A0.copy()))
        R, D = bct.breadthdist(A0.copy())
        rec["dbreadth"] = encode.mat_int(D)
        R, D = bct.reachdist(A0.copy())
        rec["dreach"] = encode.mat_int(D)
    except ValueError as e:
        rec["malformed"] = str(e)
    return rec


def decorate(rng, n, edges, mode):
    """support from the model; weights / diagonal chosen here (the property quantifies
    over 'binary or weighted, any diagonal')."""
    A = inputs.mat_from_edges(n, edges, und=True)
    if mode == 1:
        for (i, j) in edges:
            A[i, j] = A[j, i] = rng.randint(1, 5)
    if mode == 2:
        for i in range(n):
            A[i, i] = rng.choice([0, 1, 3])
        for (i, j) in edges:
            A[i, j] = A[j, i] = rng.choice([1, 2, -2])
    return A


def build_jobs(ctx):
    rng = random.Random(ctx.seed)
    jobs = []
    sizes = [3, 4, 5] if ctx.quick else [3, 4, 5, 6]
    for n in sizes:
        for edges in inputs.model_graphs(ctx, "und", n):
            if n == 6 and rng.random() > 0.25:
                mode = None
            for mode in ([0] if n >= 5 else [0, 1, 2]):
                if n >= 5:
                    mode = rng.choice([0, 1, 2])
                jobs.append(dict(fn=FN, src="model", A=decorate(rng, n, edges, mode).tolist()))
    # asymmetric inputs (must be rejected)
    for edges in inputs.sample(rng, inputs.model_graphs(ctx, "dir", 4), 150 if ctx.quick else 1500):
        A = inputs.mat_from_edges(4, edges, und=False)
        jobs.append(dict(fn=FN, src="model-dir", A=A.tolist()))
    # ... weighted ones of every density up to "no zero entry at all" (complete, with self-connections)
    for k in range(40 if ctx.quick else 400):
        n = rng.randint(2, 9)
        dens = rng.choice([0.3, 0.7, 1.0, 1.0])
        A = np.array([[(rng.choice([1, 2, 3, -1, -2]) if rng.random() < dens else 0) for _ in range(n)]
                      for _ in range(n)], dtype=float)
        if rng.random() < 0.5:
            np.fill_diagonal(A, 0)
        if (A == A.T).all():
            i, j = rng.sample(range(n), 2)
            A[i, j] = A[j, i] + 1
        jobs.append(dict(fn=FN, src="asymmetric-weighted", A=A.tolist()))
    # ... symmetric inputs handed over as np.matrix (2-D semantics: axis sums stay 1 x n, `*` is a matrix product)
    for k in range(40 if ctx.quick else 400):
        n = rng.randint(3, 10)
        A = np.zeros((n, n))
        for i in range(n):
            for j in range(i + 1, n):
                if rng.random() < rng.choice([0.15, 0.3]):
                    A[i, j] = A[j, i] = 1
        for i in rng.sample(range(n), rng.randint(0, 2)):      # isolated nodes anywhere in the numbering
            A[i, :] = 0
            A[:, i] = 0
        jobs.append(dict(fn=FN, src="np.matrix", A=A.tolist(), layout="matrix"))
    # random larger graphs: forests, isolated nodes, late merges
    nrand = 300 if ctx.quick else 4000
    for k in range(nrand):
        n = rng.randint(6, 12)
        kind = k % 4
        if kind == 0:      # forest: random parent pointers on a shuffled order (late merges)
            A = np.zeros((n, n))
            order = list(range(n)); rng.shuffle(order)
            for idx in range(1, n):
                if rng.random() < 0.7:
                    u, v = order[idx], order[rng.randrange(idx)]
                    A[u, v] = A[v, u] = 1
        else:
            A = inputs.rand_graph(rng, n, rng.choice([0.08, 0.15, 0.3]), und=True, wmax=4)
            if kind == 2:
                for i in range(n):
                    A[i, i] = rng.choice([0, 2])
        jobs.append(dict(fn=FN, src="random", A=A.tolist()))
    # larger random forests and sparse graphs with randomly numbered nodes: long chains of late
    # merges (a partial component absorbed by a second one that is absorbed by a third ...) only
    # occur with enough nodes - no graph on <= 6 nodes has one
    for k in range(150 if ctx.quick else 1500):
        n = rng.randint(20, 40)
        A = np.zeros((n, n))
        order = list(range(n))
        rng.shuffle(order)
        for idx in range(1, n):
            if rng.random() < 0.85:
                u, v = order[idx], order[rng.randrange(max(0, idx - 4), idx) if k % 2 else rng.randrange(idx)]
                A[u, v] = A[v, u] = rng.choice([1, 1, 2])
        if k % 5 == 0:
            A[order[0], order[0]] = 1
        jobs.append(dict(fn=FN, src="random-forest", A=A.tolist(), light=1))
    # a dense part next to a long sparse part (clique + path + isolated nodes, shuffled numbering):
    # the classical stress for matrix-power / counting implementations - walk counts explode in the
    # dense part while the sparse part keeps the iteration going
    for k in range(6 if ctx.quick else 40):
        m, L, iso = rng.randint(12, 18), rng.randint(30, 44), rng.randint(0, 2)
        n = m + L + iso
        A = np.zeros((n, n))
        A[:m, :m] = 1 - np.eye(m)
        for x in range(m, m + L - 1):
            A[x, x + 1] = A[x + 1, x] = rng.choice([1, 1, 3])
        if k % 3 == 0:                     # sometimes the two parts are joined
            A[0, m] = A[m, 0] = 1
        p = list(range(n))
        rng.shuffle(p)
        A = A[np.ix_(p, p)]
        jobs.append(dict(fn=FN, src="clique+path", A=A.tolist(), light=1))
    # hubs whose degree is a multiple of 256 (seed round 7): a sum over a row of an 8-bit adjacency matrix
    # wraps to 0 exactly there, so the hub looks isolated to code that accumulates in the argument's type;
    # 258..290 nodes: hub + 256 (or 255 / 257) leaves, a short path hanging off one leaf, 0..2 isolated nodes,
    # shuffled numbering.  diversify() is overridden: these are typed uint8 / int8 / bool.
    for k in range(3 if ctx.quick else 12):
        deg = [256, 256, 255, 257][k % 4]
        tail, iso = rng.randint(1, 6), rng.randint(0, 2)
        n = 1 + deg + tail + iso
        A = np.zeros((n, n))
        A[0, 1:deg + 1] = A[1:deg + 1, 0] = 1
        for x in range(deg, deg + tail):
            A[x, x + 1] = A[x + 1, x] = 1
        p = list(range(n))
        rng.shuffle(p)
        A = A[np.ix_(p, p)]
        jobs.append(dict(fn=FN, src="hub-256", A=A.astype(int).tolist(), light=1,
                         dtype=["uint8", "int8", "uint8", "bool"][k % 4], keep_dtype=1))
    return jobs


def diversify(ctx, jobs):
    rng = random.Random(ctx.seed + 77)
    for j in jobs:
        if j.get("keep_dtype"):
            continue
        if rng.random() < 0.45:
            j["dtype"] = rng.choice(["int", "int32", "bool", "uint8", "float32"])
        if rng.random() < 0.25:
            j["layout"] = rng.choice(["F", "view"])
    return jobs


def run(ctx):
    ctx.mc("MC_Components.tla", "MC_Components.cfg" if ctx.quick else "MC_Components_thorough.cfg")
    jobs = diversify(ctx, build_jobs(ctx))
    recs = pool.run_jobs(__name__, jobs, reuse=True, abort=True, strict_fp=True)
    verdicts = ctx.validate("Trace_Components.tla", "Trace_Components.cfg", recs)
    ctx.judge(jobs, recs, verdicts)
    # non-trivial: distinct inputs with >= 2 components of which one has >= 2 nodes, or asymmetric
    seen = set()
    for j, r in zip(jobs, recs):
        if r.get("raised") == "" and len(r["sizes"]) >= 2 and max(r["sizes"]) >= 2:
            seen.add(str(r["A"]))
    ctx.nontrivial = len(seen)
    ctx.exhaustive = True
    ctx.rule = ("every undirected graph on 3..%d nodes (TLC-enumerated, decorated with weights/"
                "diagonals), sampled asymmetric digraphs on 4 nodes, seeded random graphs n in 6..12 "
                "(forests, isolated nodes); non-trivial = distinct symmetric input with >= 2 components "
                "one of which has >= 2 nodes" % (5 if ctx.quick else 6))
    ctx.add_sample("model-input", dict(job=jobs[5], record=recs[5]))
    ctx.add_sample("random-input", dict(job=jobs[-1], record=recs[-1]))
    ctx.assumptions += ["TLC evaluates the L0 definitions correctly",
                        "integer weights; diagonals and weights chosen by the harness RNG (VERIF_SEED)"]
    return ctx.finish()


def replay(ctx, rp):
    job = rp["job"]
    recs = pool.run_jobs(__name__, [job])
    verdicts = ctx.validate("Trace_Components.tla", "Trace_Components.cfg", recs)
    core.log("replay verdict:", verdicts[0])
    ctx.judge([job], recs, verdicts)
    return ctx.finish()
