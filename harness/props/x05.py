"""X05 (extended coverage; NOT registered in MANIFEST) - backbone / similarity utilities equal
their documented definitions.

mc:       spec/BackboneImpl.tla - backbone_wu's greedy spanning-tree loop (first strongest edge,
          one action per added edge with the code's in_ / out node lists, np.argmax tie rule) and
          the backfill, as a machine over EVERY weighted undirected graph on <= 4 (thorough: 5)
          nodes with weights from a small set with ties x every demanded degree total; TLC proves
          that it ends with a spanning tree of maximum weight among ALL enumerated spanning
          trees (L0, spec/Backbone.tla), the Prim loop invariant on the way, the equivalence of
          the enumeration-free cycle criterion, and the L0 backfill clauses.  MC_Backbone.tla
          adds lemmas for the m-step neighbourhoods of gtom on every graph on <= 4 nodes.
gen/run:  backbone_wu, gtom, dice_pairwise_und, corr_flat_und / corr_flat_dir,
          get_components_old (both branches), dummyvar on every TLC-enumerated graph on 2..4
          nodes (5: sampled in the quick tier), seeded random / structured larger ones,
          tie-rich and distinct weights, dtypes and layouts.
validate: spec/Trace_Backbone.tla judges every record (one record per real call).

Python only calls bctpy and encodes numbers.  avgdeg is handed over as dn / n for an integer
degree total dn such that float(dn / n) * n == dn exactly (the spec works with dn).
"""
import json
import math
import os
import random
import threading

import numpy as np

from .. import core, encode, inputs, pool
from . import rel_common as rc

TLA, CFG = "Trace_Backbone.tla", "Trace_Backbone.cfg"


# ----------------------------------------------------------------- encoding
def _q(x):
    x = float(x)
    if math.isnan(x):
        return encode.NAN
    if math.isinf(x) or abs(x * encode.Q6) >= 1e9:
        return encode.INF if x > 0 else encode.NINF
    return int(round(x * encode.Q6))


class _Malformed(Exception):
    pass


def _ints(f, *a):
    try:
        return f(*a)
    except (ValueError, TypeError) as e:
        raise _Malformed("%s: %s" % (type(e).__name__, e))


def _im(M):
    M = np.asarray(M, dtype=float)
    if M.ndim != 2:
        raise _Malformed("matrix of shape %s" % (M.shape,))
    return encode.mat_int(M)


def _arg(job, M):
    return rc.as_variant(np.asarray(M), job.get("dtype", "float64"), job.get("layout", "C"))


def _guard(rec, thunk):
    try:
        with np.errstate(all="ignore"):
            return True, thunk()
    except pool.CallTimeout:
        raise
    except Exception as e:
        rec["raised"] = encode.exc_name(e)
        return False, None


# ------------------------------------------------------------------ one call
def exec_job(job):
    import bct
    rec = dict(fn=job["fn"], kind=job["kind"], raised="", malformed="")
    try:
        return _EXEC[job["kind"]](bct, job, rec)
    except (pool.CallTimeout, core.MachineryError):
        raise
    except _Malformed as e:
        rec["malformed"] = str(e)[:100]
        return rec


def x_backbone(bct, job, rec):
    A = np.array(job["A"], dtype=float)
    n, dn = len(A), int(job["dn"])
    avgdeg = dn / n
    if avgdeg * n != dn:
        raise core.MachineryError("avgdeg * n is not exact for dn=%d n=%d" % (dn, n))
    rec.update(n=n, A=encode.mat_int(A), dn=dn, tree=[], clus=[])
    ok, out = _guard(rec, lambda: bct.backbone_wu(_arg(job, A), avgdeg))
    if ok:
        if not isinstance(out, tuple) or len(out) != 2:
            raise _Malformed("backbone_wu returned %s" % type(out).__name__)
        rec["tree"] = _ints(_im, out[0])
        rec["clus"] = _ints(_im, out[1])
    return rec


def x_gtom(bct, job, rec):
    A = np.array(job["A"], dtype=float)
    rec.update(n=len(A), A=encode.mat_int(A), m=int(job["m"]), gt=[])
    ok, out = _guard(rec, lambda: bct.gtom(_arg(job, A), int(job["m"])))
    if ok:
        G = np.asarray(out, dtype=float)
        if G.ndim != 2:
            raise _Malformed("gt of shape %s" % (G.shape,))
        rec["gt"] = [[_q(v) for v in row] for row in G]
    return rec


def x_dice(bct, job, rec):
    A, B = np.array(job["A"], dtype=float), np.array(job["A2"], dtype=float)
    rec.update(n=len(A), A=encode.mat_int(A), A2=encode.mat_int(B), d=[])
    ok, out = _guard(rec, lambda: bct.dice_pairwise_und(_arg(job, A), _arg(job, B)))
    if ok:
        rec["d"] = [_q(v) for v in np.asarray(out, dtype=float).ravel()]
    return rec


def x_corr(bct, job, rec):
    A, B = np.array(job["A"], dtype=float), np.array(job["A2"], dtype=float)
    rec.update(n=len(A), A=encode.mat_int(A), A2=encode.mat_int(B), und=int(job["und"]), rq=encode.NAN,
               r2q=encode.NAN)
    f = bct.corr_flat_und if job["und"] else bct.corr_flat_dir
    ok, out = _guard(rec, lambda: f(_arg(job, A), _arg(job, B)))
    if ok:
        r = float(out)
        rec["rq"], rec["r2q"] = _q(r), _q(r * r)
    return rec


def x_comps(bct, job, rec):
    A = np.array(job["A"], dtype=float)
    rec.update(n=len(A), A=encode.mat_int(A), comps=[], sizes=[])
    ok, out = _guard(rec, lambda: bct.get_components_old(_arg(job, A), no_depend=bool(job["no_depend"])))
    if ok:
        rec["comps"] = _ints(encode.vec_int, out[0])
        rec["sizes"] = _ints(encode.vec_int, out[1])
    return rec


def x_dummy(bct, job, rec):
    cis = np.array(job["cis"], dtype=job.get("dtype", "int64"))
    rec.update(n=cis.shape[0], M=cis.shape[1], cis=np.array(job["cis"]).tolist(), cols=[])
    ok, out = _guard(rec, lambda: bct.dummyvar(cis))
    if ok:
        D = np.asarray(out, dtype=float)
        if D.ndim != 2 or D.shape[0] != cis.shape[0]:
            raise _Malformed("dummyvar of shape %s" % (D.shape,))
        rec["cols"] = _ints(_im, D.T) if D.shape[1] else []
    return rec


_EXEC = dict(backbone=x_backbone, gtom=x_gtom, dice=x_dice, corr=x_corr, comps=x_comps, dummy=x_dummy)


# -------------------------------------------------------------------- inputs
def J(fn, kind, src, **kw):
    d = dict(fn=fn, kind=kind, src=src)
    d.update(kw)
    return d


def wmat(n, edges, val):
    A = [[0] * n for _ in range(n)]
    for (i, j) in edges:
        A[i][j] = A[j][i] = val()
    return A


def variant(rng, family, p_plain=0.5, no=("bool", "uint8", "float32")):
    dt, lay = rc.draw_variant(rng, family, p_plain)
    if dt in no:
        dt = "int64"
    return dict(dtype=dt, layout=lay)


def rand_edges(rng, n, p):
    return [(i, j) for i in range(n) for j in range(i + 1, n) if rng.random() < p]


def exact_dn(n, dn):
    """the next degree total >= dn whose average degree is exact in floating point"""
    while (dn / n) * n != dn:
        dn += 1
    return dn


def draw_dn(rng, n, m):
    lo, hi = 2 * (n - 1), 2 * m
    r = rng.random()
    if r < 0.12:
        dn = rng.randint(0, lo)                  # requirement already met
    elif r < 0.2:
        dn = hi + rng.randint(0, 2)              # everything / more than there is
    else:
        dn = rng.randint(lo, max(lo, hi))
        if rng.random() < 0.7:
            dn -= dn % 2
    return exact_dn(n, dn)


def weights(rng):
    style = rng.choice(["ties", "ties", "mid", "distinct"])
    if style == "ties":
        return style, (lambda: rng.choice([1, 2]))
    if style == "mid":
        return style, (lambda: rng.randint(1, 5))
    pool_ = list(range(1, 100))
    rng.shuffle(pool_)
    return style, (lambda: pool_.pop())


def backbone_jobs(ctx, rng):
    jobs = []

    def bb(A, dn, src, **kw):
        jobs.append(J("backbone_wu", "backbone", src, A=A, dn=dn, **kw))
    for n in (2, 3, 4, 5):
        graphs = inputs.model_graphs(ctx, "und", n)
        if n == 5:                                   # (fewer than n - 1 connections: never connected)
            graphs = [e for e in graphs if len(e) >= 4]
        if n == 5 and ctx.quick:
            graphs = inputs.sample(rng, graphs, 350)
        for e in graphs:
            for rep in range(2 if n < 5 else 1):
                style, val = weights(rng)
                if n >= 4 and style == "distinct" and rng.random() < 0.5:
                    style, val = "ties", (lambda: rng.choice([1, 2, 3]))
                A = wmat(n, e, val)
                for _ in range(2):
                    bb(A, draw_dn(rng, n, len(e)), "model-und%d-%s" % (n, style),
                       **variant(rng, rc.DT_COUNT, 0.7))
    for k in range(150 if ctx.quick else 1500):
        if k % 3 == 0:
            kind, n, e = rc.structured_support(rng, 6, 14)
            src = "struct-" + kind
        else:
            n = rng.randint(6, 14)
            e = rand_edges(rng, n, rng.choice([0.3, 0.5, 0.8, 1.0]))
            if rng.random() < 0.8:                 # a random spanning path keeps the input connected
                perm = list(range(n))
                rng.shuffle(perm)
                e = sorted(set(e) | {tuple(sorted(p)) for p in zip(perm, perm[1:])})
            src = "random"
        style, val = weights(rng)
        if len(e) > 95:
            style, val = "mid", (lambda: rng.randint(1, 5))
        bb(wmat(n, e, val), draw_dn(rng, n, len(e)), "%s-%s" % (src, style), **variant(rng, rc.DT_COUNT))
    # "nodes with zero strength are discarded": isolated nodes next to a connected rest
    for k in range(40 if ctx.quick else 400):
        n = rng.randint(3, 9)
        iso = set(rng.sample(range(n), rng.randint(1, max(1, n - 2))))
        act = [v for v in range(n) if v not in iso]
        e = [(i, j) for i in act for j in act if i < j and rng.random() < 0.5]
        perm = act[:]
        rng.shuffle(perm)
        e = sorted(set(e) | {tuple(sorted(p)) for p in zip(perm, perm[1:])})
        style, val = weights(rng)
        bb(wmat(n, e, val), draw_dn(rng, n, len(e)), "isolated-%s" % style, **variant(rng, rc.DT_COUNT))
    # outside the documented domain (the spec skips them): asymmetric, self-connection
    A = wmat(4, [(0, 1), (1, 2), (2, 3)], lambda: 2)
    A[0][1] = 3
    bb(A, 6, "asymmetric")
    A = wmat(4, [(0, 1), (1, 2), (2, 3), (0, 3)], lambda: 2)
    A[2][2] = 5
    bb(A, 8, "self-connection")
    return jobs


def gtom_jobs(ctx, rng):
    jobs = []

    def gt(A, m, src, **kw):
        jobs.append(J("gtom", "gtom", src, A=A, m=m, **kw))
    for n in (2, 3, 4, 5):
        graphs = inputs.model_graphs(ctx, "und", n)
        if n == 5 and ctx.quick:
            graphs = inputs.sample(rng, graphs, 200)
        for e in graphs:
            A = wmat(n, e, lambda: 1)
            for m in ((0, 1, 2, 3) if n < 5 else (1, rng.choice([2, 3, 4]))):
                gt(A, m, "model-und%d" % n, **variant(rng, rc.DT_BIN, 0.7))
    for k in range(60 if ctx.quick else 600):
        if k % 2:
            kind, n, e = rc.structured_support(rng, 6, 12)
            src = "struct-" + kind
        else:
            n = rng.randint(6, 12)
            e = rand_edges(rng, n, rng.choice([0.15, 0.3, 0.5]))
            src = "random"
        gt(wmat(n, e, lambda: 1), rng.choice([1, 2, 2, 3, 4]), src, **variant(rng, rc.DT_BIN))
    # long cycles / paths: "at most length m" differs from any faster-growing neighbourhood
    for n in (9, 16, 20):
        for m in (3, 4, 5):
            gt(wmat(n, [(i, (i + 1) % n) for i in range(n)], lambda: 1), m, "cycle-%d" % n)
            gt(wmat(n, [(i, i + 1) for i in range(n - 1)], lambda: 1), m, "path-%d" % n)
    return jobs


def sim_jobs(ctx, rng):
    jobs = []
    for n in (2, 3, 4):
        graphs = inputs.model_graphs(ctx, "und", n)
        for e in graphs:
            e2 = rng.choice(graphs)
            jobs.append(J("dice_pairwise_und", "dice", "model-und%d" % n, A=wmat(n, e, lambda: 1),
                          A2=wmat(n, e2, lambda: rng.choice([1, 1, 3])), **variant(rng, rc.DT_COUNT, 0.7)))
    for k in range(80 if ctx.quick else 600):
        n = rng.randint(4, 9)
        A = wmat(n, rand_edges(rng, n, rng.choice([0.2, 0.5, 0.8])), lambda: 1)
        B = wmat(n, rand_edges(rng, n, rng.choice([0.2, 0.5, 0.8])), lambda: rng.choice([1, 2]))
        if rng.random() < 0.2:
            A[0][0] = 1                              # "set diagonals to 0": ignored
        jobs.append(J("dice_pairwise_und", "dice", "random", A=A, A2=B, **variant(rng, rc.DT_COUNT)))
    for k in range(200 if ctx.quick else 2000):
        und = rng.random() < 0.5
        n = rng.randint(3, 6 if und else 5)
        hi = rng.choice([1, 3, 5])
        if und:
            A = wmat(n, rand_edges(rng, n, 0.7), lambda: rng.randint(1, hi))
            B = wmat(n, rand_edges(rng, n, 0.7), lambda: rng.randint(1, hi))
        else:
            A = [[rng.randint(0, hi) if i != j and rng.random() < 0.7 else 0 for j in range(n)] for i in range(n)]
            B = [[rng.randint(0, hi) if i != j and rng.random() < 0.7 else 0 for j in range(n)] for i in range(n)]
        if rng.random() < 0.3:                       # the diagonal is not part of either sample
            B[1][1] = 4
        if rng.random() < 0.15:
            B = [[2 * v + 1 for v in row] for row in A] if hi < 3 else [[5 - v for v in row] for row in A]
            if not und:
                pass
        jobs.append(J("corr_flat_und" if und else "corr_flat_dir", "corr", "random", A=A, A2=B, und=int(und),
                      **variant(rng, rc.DT_COUNT)))
    return jobs


def misc_jobs(ctx, rng):
    jobs = []
    for n in (1, 2, 3, 4, 5):
        graphs = [[]] if n == 1 else inputs.model_graphs(ctx, "und", n)
        if n == 5:
            graphs = inputs.sample(rng, graphs, 60 if ctx.quick else 1024)
        for e in graphs:
            nd = rng.random() < 0.6
            jobs.append(J("get_components_old", "comps",
                          "model-und%d" % n, A=wmat(n, e, lambda: 1), no_depend=int(nd),
                          **variant(rng, rc.DT_BIN, 0.7)))
    for k in range(20 if ctx.quick else 200):
        kind, n, e = rc.structured_support(rng, 6, 20)
        nd = rng.random() < 0.6
        jobs.append(J("get_components_old", "comps",
                      "struct-" + kind, A=wmat(n, e, lambda: 1), no_depend=int(nd)))
    for k in range(120 if ctx.quick else 1000):
        n, M = rng.randint(1, 7), rng.randint(1, 3)
        labels = rng.choice([[1, 2], [1, 2, 3, 4], [2, 5, 7], [0, 1, 2], [3]])
        cis = [[rng.choice(labels) for _ in range(M)] for _ in range(n)]
        jobs.append(J("dummyvar", "dummy", "random", cis=cis, dtype=rng.choice(["int64", "float64", "int32"])))
    return jobs


def build_jobs(ctx):
    rng = random.Random(ctx.seed)
    jobs = backbone_jobs(ctx, rng) + gtom_jobs(ctx, rng) + sim_jobs(ctx, rng) + misc_jobs(ctx, rng)
    only = os.environ.get("VERIF_X05_ONLY")        # developer convenience (mutant runs), never set by `check`
    if only:
        jobs = [j for j in jobs if j["kind"] in only.split(",")]
    return jobs


# ------------------------------------------------------------------ driver
def validate_parallel(ctx, recs, parts, par):
    if len(recs) < 600:
        return ctx.validate(TLA, CFG, recs)
    size = (len(recs) + parts - 1) // parts
    thunks = [(lambda k=k: ctx.validate(TLA, CFG, recs[k * size:(k + 1) * size], tag="Trace_Backbone_p%d" % k,
                                        chunk=size + 1))
              for k in range(parts) if recs[k * size:(k + 1) * size]]
    out = ctx.parallel(thunks, width=par)
    return [v for part in out for v in part]


def what(job, rec, clause):
    keep = {k: v for k, v in rec.items() if k not in ("fn", "kind")}
    s = json.dumps(keep)
    return "src=%s dtype=%s layout=%s %s" % (job.get("src"), job.get("dtype", "float64"),
                                             job.get("layout", "C"), s if len(s) < 1500 else s[:1500] + "...")


def run(ctx):
    result = {}

    def models():
        try:
            ctx.mc("MC_Backbone.tla", "MC_Backbone.cfg" if ctx.quick else "MC_Backbone_thorough.cfg", workers=6)
        except Exception as e:
            result["err"] = e
    jobs = build_jobs(ctx)              # (model inputs come from TLC: before the model thread starts)
    th = threading.Thread(target=models)
    th.start()
    try:
        recs = pool.run_jobs(__name__, jobs, procs=8)
        order = sorted(range(len(recs)), key=lambda k: (k % 97, k))
        v0 = validate_parallel(ctx, [recs[k] for k in order], parts=4 if ctx.quick else 12,
                               par=2 if ctx.quick else 4)
        verdicts = [None] * len(recs)
        for k, v in zip(order, v0):
            verdicts[k] = v
    finally:
        th.join()
    if "err" in result:
        raise result["err"]
    ctx.judge(jobs, recs, verdicts, what=what)
    per_fn, seen, clauses, drifts = {}, set(), {}, {}
    for j, r, v in zip(jobs, recs, verdicts):
        per_fn[r["fn"]] = per_fn.get(r["fn"], 0) + 1
        clauses[v[0]] = clauses.get(v[0], 0) + 1
        drifts[v[1]] = drifts.get(v[1], 0) + 1
        body = r.get("A") or r.get("cis")
        cells = sum(1 for row in body for x in row if x != 0) if body else 0
        if not v[0].startswith("skip") and cells >= 2:
            seen.add((r["fn"], json.dumps(body), json.dumps([r.get(k) for k in ("dn", "m", "A2", "und")])))
    ctx.nontrivial = len(seen)
    ctx.exhaustive = True
    ctx.extra["records_per_function"] = per_fn
    ctx.extra["verdict_counts"] = clauses
    ctx.extra["drift_counts"] = drifts
    ctx.rule = ("backbone_wu: every graph on 2..4 nodes (%s 5-node graphs) x 1-2 seeded weightings (tied {1,2} / "
                "{1,2,3}, 1..5, distinct) x 2 degree totals, random / structured connected and disconnected "
                "graphs on 6..14 nodes; gtom: every graph on 2..4 nodes x steps 0..3, 5-node graphs, random / "
                "structured 6..12 nodes, steps 1..4; dice_pairwise_und: every graph on 2..4 nodes against a "
                "second one, random 4..9 nodes; corr_flat_und / _dir: random integer matrices on 3..6 nodes; "
                "get_components_old (both branches): every graph on 1..4 nodes, 5-node and structured graphs; "
                "dummyvar: random partition arrays; non-trivial = distinct (function, input, options) judged "
                "on an input with >= 2 non-zero cells" % ("350 sampled" if ctx.quick else "all"))
    for k in (0, len(jobs) // 2, len(jobs) - 1):
        ctx.add_sample("input", dict(job=jobs[k], record=recs[k], verdict=list(verdicts[k])))
    ctx.assumptions += [
        "TLC evaluates the L0 definitions of spec/Backbone.tla correctly",
        "backbone_wu: connected symmetric inputs without self-connections, positive integer weights; "
        "avgdeg = dn / n exact in floating point; a degree total above the input's is outside the domain "
        "(the code raises); n > 5: maximality through the cycle criterion proved equivalent on n <= 5",
        "with tied weights any maximum spanning tree and any choice among tied backfill connections is "
        "accepted (all tied ones together too)",
        "gtom: 0/1 symmetric inputs without self-connections; the overlap formula is the one of the cited "
        "reference (Yip & Horvath 2007 eq. 4, minimum of the two neighbourhood sizes) as in gtom.m",
        "observed reals compared at 10^-6 (tolerance 2 units; squared correlations 4 units)",
        "dice of a node without neighbours in both networks and correlations of a constant sample are not judged",
    ]
    return ctx.finish()


def replay(ctx, rp):
    j = rp["job"]
    recs = pool.run_jobs(__name__, [j])
    verdicts = ctx.validate(TLA, CFG, recs)
    core.log("replay verdict:", verdicts[0], what(j, recs[0], verdicts[0][0]))
    ctx.judge([j], recs, verdicts, what=what)
    return ctx.finish()
