"""X06 (extended coverage; NOT registered in MANIFEST) - core/periphery subdivision and the node
re-ordering utilities equal their documented definitions.

mc:       spec/CorePeripheryImpl.tla - core_periphery_dir's loops (outer `while flag`, inner loop that
          moves every node once, best not-yet-moved node first, random tie-break as a nondeterministic
          choice, best prefix kept) as a machine over every weighted digraph on 3 nodes (weights 0..2,
          three gammas) / every digraph on 4 nodes, times every initial assignment; TLC proves that
          the q the loop keeps is the core-ness of the C it keeps (exact integers), that the Qt update
          formula is the core-ness after a single move, that q never falls below the start, that the
          loop ends within 2 rounds in a single-move local optimum that is the optimal subdivision
          (the statistic is linear in the assignment; one round already reaches it), and the swap law of the
          re-ordering loops (MC_CorePeriphery*.cfg).
gen/run:  core_periphery_dir on every TLC-enumerated digraph n <= 4 (start given as array / as list /
          drawn), random / structured / tie-rich weighted digraphs up to 10 nodes, with a recording /
          scripted RNG that logs (or dictates: first / last candidate) every draw; reorder_mod,
          reorder_matrix, reorderMAT, align_matrices, link_communities on small weighted matrices.
validate: spec/Trace_CorePeriphery.tla judges every record (one record per real call); drift = the L2
          machine replayed with the recorded draws ends in the very C.

Python only calls bctpy and encodes numbers.  Encoding beyond harness/encode.py: the core-ness q is
sent as qs = round(q * D), qres = round(|q * D - qs| * 10^6) with D = 2 s n^2 gq (the spec recomputes D
and refuses another one): q * 10^6 * D does not fit TLC's 32-bit integers.
"""
import contextlib
import io
import json
import os
import random
import threading

import numpy as np

from .. import core, encode, inputs, pool

TLA, CFG = "Trace_CorePeriphery.tla", "Trace_CorePeriphery.cfg"
GAMMAS = [(1, 1), (1, 2), (3, 2), (2, 1), (3, 4)]


# ------------------------------------------------------------------ random stream
class CpRng(np.random.RandomState):
    """the routine's `rng`: logs the start vector and (low, value) of every scalar randint;
    mode 'real' draws from the seeded stream, 'first' / 'last' dictate the tie-break"""

    def __init__(self, seed, mode="real"):
        super().__init__(seed)
        self.mode = mode
        self.init = None
        self.picks = []
        self.other = 0

    def randint(self, low, high=None, size=None, dtype=int):
        if high is not None:
            self.other += 1
            return super().randint(low, high, size)
        if size is not None:
            v = super().randint(low, size=size)
            if self.init is None and low == 2:
                self.init = [int(x) for x in np.asarray(v).ravel()]
            else:
                self.other += 1
            return v
        if low <= 0:
            return super().randint(low)          # raises as numpy does
        v = {"first": 0, "last": low - 1}.get(self.mode)
        if v is None:
            v = int(super().randint(low))
        self.picks.append([int(low), int(v)])
        return v


# ------------------------------------------------------------------ one call
class _Malformed(Exception):
    pass


def _ints(f, *a):
    try:
        return f(*a)
    except (ValueError, TypeError) as e:
        raise _Malformed("%s: %s" % (type(e).__name__, e))


def x_cp(bct, job, rec):
    W = np.array(job["W"], dtype=job.get("dtype", "float64"))
    n = len(W)
    gp, gq = job["gp"], job["gq"]
    c0 = job.get("c0")
    Z = np.array(job["W"], dtype=np.int64).copy()
    np.fill_diagonal(Z, 0)
    D = int(2 * int(Z.sum()) * n * n * gq)
    rng = CpRng(job.get("rseed", 1), job.get("mode", "real"))
    rec.update(n=n, W=np.array(job["W"], dtype=np.int64).tolist(), gp=gp, gq=gq, hasc0=0 if c0 is None else 1,
               cinit=[] if c0 is None else [int(x) for x in c0], picks=[], C=[], D=D, qs=0, qres=0)
    if c0 is None:
        arg = None
    elif job.get("c0as") == "list":
        arg = [int(x) for x in c0]
    else:
        arg = np.array(c0, dtype=job.get("c0as", "int64"))
    try:
        out = bct.core_periphery_dir(W, gp / gq, arg, seed=rng)
    except pool.CallTimeout:
        raise
    except Exception as e:
        rec["raised"] = encode.exc_name(e)
        return rec
    if not isinstance(out, tuple) or len(out) != 2:
        raise _Malformed("returned %s" % type(out).__name__)
    C, q = out
    if c0 is None:
        rec["cinit"] = rng.init or []
    rec["picks"] = rng.picks if not rng.other else []
    Cv = np.asarray(C)
    if Cv.ndim != 1:
        raise _Malformed("C of shape %s" % (Cv.shape,))
    rec["C"] = _ints(encode.vec_int, Cv.astype(float))
    qd = float(q) * D
    if not abs(qd) < 2e9:
        raise _Malformed("q = %r" % float(q))
    rec["qs"] = int(round(qd))
    rec["qres"] = min(int(round(abs(qd - round(qd)) * 1e6)), 10 ** 9)
    return rec


def x_reorder(bct, job, rec):
    base = job["base"]
    M = np.array(job["M"], dtype=job.get("dtype", "float64"))
    n = len(M)
    ci = job.get("ci")
    rec.update(n=n, M=np.array(job["M"], dtype=np.int64).tolist(), ord=[], R=[], ci=list(ci) if ci else [])
    np.random.seed(job.get("rseed", 1))
    try:
        with contextlib.redirect_stdout(io.StringIO()):
            if base == "reorder_mod":
                order, R = bct.reorder_mod(M, np.array(ci))
            elif base == "reorder_matrix":
                R, order, _ = bct.reorder_matrix(M, job.get("cost", "line"), False, job.get("H", 300))
            elif base == "reorderMAT":
                R, order, _ = bct.reorderMAT(M, job.get("H", 100), job.get("cost", "line"))
            else:
                M1 = np.array(job["M1"], dtype=float)
                R, order, _ = bct.align_matrices(M1, M, job.get("dfun", "sqrdiff"), False, job.get("H", 300))
    except pool.CallTimeout:
        raise
    except Exception as e:
        rec["raised"] = encode.exc_name(e)
        return rec
    order = np.asarray(order)
    R = np.asarray(R)
    if order.ndim != 1 or R.ndim != 2:
        raise _Malformed("order / matrix of shape %s / %s" % (order.shape, R.shape))
    rec["ord"] = [v + 1 for v in _ints(encode.vec_int, order.astype(float))]
    rec["R"] = _ints(encode.mat_int, R.astype(float))
    return rec


def x_lc(bct, job, rec):
    W = np.array(job["W"], dtype=float)
    rec.update(n=len(W), W=np.array(job["W"], dtype=np.int64).tolist(), M=[])
    try:
        with contextlib.redirect_stdout(io.StringIO()):
            M = bct.link_communities(W.copy(), job.get("tc", "single"))
    except pool.CallTimeout:
        raise
    except Exception as e:
        rec["raised"] = encode.exc_name(e)
        return rec
    M = np.asarray(M, dtype=float)
    if M.ndim != 2:
        raise _Malformed("M of shape %s" % (M.shape,))
    rec["M"] = _ints(encode.mat_int, M)
    return rec


_EXEC = dict(cp=x_cp, reorder=x_reorder, lc=x_lc)


def exec_job(job):
    import bct
    rec = dict(fn=job["fn"], kind=job["kind"], raised="", malformed="")
    try:
        return _EXEC[job["kind"]](bct, job, rec)
    except pool.CallTimeout:
        raise
    except core.MachineryError:
        raise
    except _Malformed as e:
        rec["malformed"] = str(e)[:100]
        return rec


# -------------------------------------------------------------------- inputs
def J(fn, kind, src, **kw):
    d = dict(fn=fn, kind=kind, src=src)
    d.update(kw)
    return d


def mat(n, edges, val=lambda i, j: 1):
    A = [[0] * n for _ in range(n)]
    for (i, j) in edges:
        A[i][j] = val(i, j)
    return A


def cp_job(rng, W, src, c0=None, c0as="int64", gamma=(1, 1), mode="real", dtype="float64"):
    fn = "core_periphery_dir" if c0 is None else "core_periphery_dir[C0 %s]" % ("list" if c0as == "list" else "array")
    return J(fn, "cp", src, W=W, gp=gamma[0], gq=gamma[1], c0=c0, c0as=c0as, mode=mode, dtype=dtype,
             rseed=rng.randrange(1 << 30))


def planted(rng, n, k, hi):
    """k core nodes densely connected, periphery attached to the core only (plus noise)"""
    A = [[0] * n for _ in range(n)]
    for i in range(n):
        for j in range(n):
            if i == j:
                continue
            p = 0.9 if (i < k and j < k) else (0.5 if (i < k or j < k) else 0.1)
            if rng.random() < p:
                A[i][j] = rng.randint(1, hi)
    perm = list(range(n))
    rng.shuffle(perm)
    return [[A[perm[i]][perm[j]] for j in range(n)] for i in range(n)]


def cp_jobs(ctx, rng):
    jobs = []
    modes = ["real", "real", "first", "last"]
    for n in (2, 3, 4):
        graphs = inputs.model_graphs(ctx, "dir", n)
        if n == 4 and ctx.quick:
            graphs = inputs.sample(rng, graphs, 1200)
        for gi, e in enumerate(graphs):
            W = mat(n, e)
            src = "model-dir%d" % n
            if n < 4:                                  # every start, as a list (and one as an array)
                for bits in range(1 << n):
                    c0 = [(bits >> k) & 1 for k in range(n)]
                    jobs.append(cp_job(rng, W, src, c0=c0, c0as="list", mode=rng.choice(modes)))
                jobs.append(cp_job(rng, W, src, c0=[rng.randint(0, 1) for _ in range(n)],
                                   c0as=rng.choice(["int64", "bool"])))
                for m in ("real", "first", "last"):
                    jobs.append(cp_job(rng, W, src, mode=m))
            else:
                c0 = [rng.randint(0, 1) for _ in range(n)]
                jobs.append(cp_job(rng, W, src, c0=c0, c0as="list", mode=rng.choice(modes),
                                   gamma=rng.choice(GAMMAS[:3])))
                jobs.append(cp_job(rng, W, src, mode=rng.choice(modes), gamma=rng.choice(GAMMAS[:3])))
                if gi % 16 == 0:
                    jobs.append(cp_job(rng, W, src, c0=c0, c0as=rng.choice(["int64", "bool"])))
    for k in range(150 if ctx.quick else 1500):
        n = rng.randint(5, 10)
        hi = rng.choice([1, 1, 2, 5, 9])
        r = k % 4
        if r == 0:
            W, src = planted(rng, n, rng.randint(1, n - 1), hi), "planted"
        elif r == 1:                                   # tie-rich: regular patterns
            pat = rng.choice(["complete", "cycle", "bicycle", "star"])
            e = {"complete": [(i, j) for i in range(n) for j in range(n) if i != j],
                 "cycle": [(i, (i + 1) % n) for i in range(n)],
                 "bicycle": [(i, (i + 1) % n) for i in range(n)] + [((i + 1) % n, i) for i in range(n)],
                 "star": [(0, i) for i in range(1, n)] + [(i, 0) for i in range(1, n)]}[pat]
            W, src = mat(n, e), "tie-" + pat
        else:
            p = rng.choice([0.15, 0.3, 0.6])
            W = [[(rng.randint(1, hi) if i != j and rng.random() < p else 0) for j in range(n)] for i in range(n)]
            src = "random"
        if rng.random() < 0.15:                        # a diagonal: cleared by the routine
            for v in rng.sample(range(n), 2):
                W[v][v] = rng.randint(1, hi)
        g = rng.choice(GAMMAS)
        dt = rng.choice(["float64", "float64", "int64"])
        if rng.random() < 0.5:
            jobs.append(cp_job(rng, W, src, c0=[rng.randint(0, 1) for _ in range(n)], c0as="list", gamma=g,
                               mode=rng.choice(modes), dtype=dt))
        else:
            jobs.append(cp_job(rng, W, src, gamma=g, mode=rng.choice(modes), dtype=dt))
    return jobs


def wmat(rng, n, p, hi, und, diag=False):
    A = [[0] * n for _ in range(n)]
    for i in range(n):
        for j in range(n):
            if i != j and (not und or i < j) and rng.random() < p:
                A[i][j] = rng.randint(1, hi)
                if und:
                    A[j][i] = A[i][j]
    if diag:
        for i in range(n):
            A[i][i] = rng.randint(0, hi)
    return A


def reorder_jobs(ctx, rng):
    jobs = []
    for k in range(120 if ctx.quick else 1000):
        n = rng.randint(2, 7)
        A = wmat(rng, n, rng.choice([0.3, 0.6, 0.9]), rng.choice([1, 3]), rng.random() < 0.6)
        m = rng.choice([1, 2, 2, 3, 3, 4])
        ci = [rng.randint(1, m) for _ in range(n)]
        jobs.append(J("reorder_mod", "reorder", "random", base="reorder_mod", M=A, ci=ci))
    for n in (2, 3, 4):                                # every affiliation into <= 2 modules, a fixed graph family
        for bits in range(1 << n):
            ci = [1 + ((bits >> k) & 1) for k in range(n)]
            A = wmat(rng, n, 0.7, 2, True)
            jobs.append(J("reorder_mod", "reorder", "two-modules", base="reorder_mod", M=A, ci=ci))
    for k in range(90 if ctx.quick else 900):
        n = rng.randint(2, 7)
        und = rng.random() < 0.5
        diag = rng.random() < 0.25
        base = ("reorder_matrix", "reorderMAT", "align_matrices")[k % 3]
        A = wmat(rng, n, rng.choice([0.3, 0.6, 0.9]), rng.choice([1, 3, 9]), und, diag and base != "reorderMAT")
        kw = dict(base=base, M=A, rseed=rng.randrange(1 << 30), cost=rng.choice(["line", "circ"]),
                  dtype=rng.choice(["float64", "int64"]))
        if base == "align_matrices":
            perm = list(range(n))
            rng.shuffle(perm)
            if rng.random() < 0.7:                     # M1 = a re-ordering of M (+ occasionally something else)
                kw["M1"] = [[A[perm[i]][perm[j]] for j in range(n)] for i in range(n)]
            else:
                kw["M1"] = wmat(rng, n, 0.5, 3, und)
            kw["dfun"] = rng.choice(["sqrdiff", "absdiff"])
        jobs.append(J(base, "reorder", "random", **kw))
    return jobs


def lc_jobs(ctx, rng):
    jobs = []
    for k in range(30 if ctx.quick else 200):
        n = rng.randint(3, 7)
        A = wmat(rng, n, rng.choice([0.5, 0.8]), rng.choice([1, 3]), rng.random() < 0.5)
        jobs.append(J("link_communities", "lc", "random", W=A, tc=rng.choice(["single", "complete"])))
    return jobs


def build_jobs(ctx):
    rng = random.Random(ctx.seed)
    jobs = cp_jobs(ctx, rng) + reorder_jobs(ctx, rng) + lc_jobs(ctx, rng)
    only = os.environ.get("VERIF_X06_ONLY")        # developer convenience (mutant runs), never set by `check`
    if only:
        jobs = [j for j in jobs if j["kind"] in only.split(",")]
    return jobs


# ------------------------------------------------------------------ models
QUICK_MODELS = [("MC_CorePeriphery.tla", "MC_CorePeriphery.cfg")]
THOROUGH_MODELS = QUICK_MODELS + [("MC_CorePeriphery.tla", "MC_CorePeriphery_n4.cfg"),
                                  ("MC_CorePeriphery.tla", "MC_CorePeriphery_live.cfg")]


def validate_parallel(ctx, recs, parts, par):
    if len(recs) < 600:
        return ctx.validate(TLA, CFG, recs)
    size = (len(recs) + parts - 1) // parts
    thunks = [(lambda k=k: ctx.validate(TLA, CFG, recs[k * size:(k + 1) * size], tag="Trace_CorePeriphery_p%d" % k,
                                        chunk=size + 1))
              for k in range(parts) if recs[k * size:(k + 1) * size]]
    out = ctx.parallel(thunks, width=par)
    return [v for part in out for v in part]


def what(job, rec, clause):
    keep = {k: v for k, v in rec.items() if k not in ("fn", "kind")}
    s = json.dumps(keep)
    return "src=%s mode=%s c0as=%s %s" % (job.get("src"), job.get("mode"), job.get("c0as"),
                                         s if len(s) < 1500 else s[:1500] + "...")


def run(ctx):
    result = {}

    def models():
        try:
            ms = QUICK_MODELS if ctx.quick else THOROUGH_MODELS
            ctx.parallel([(lambda m=m: ctx.mc(m[0], m[1], workers=6)) for m in ms], width=3)
        except Exception as e:
            result["err"] = e
    jobs = build_jobs(ctx)
    th = threading.Thread(target=models)
    th.start()
    try:
        recs = pool.run_jobs(__name__, jobs, procs=8)
        order = sorted(range(len(recs)), key=lambda k: (k % 97, k))
        v0 = validate_parallel(ctx, [recs[k] for k in order], parts=4 if ctx.quick else 12, par=4)
        verdicts = [None] * len(recs)
        for k, v in zip(order, v0):
            verdicts[k] = v
    finally:
        th.join()
    if "err" in result:
        raise result["err"]
    ctx.judge(jobs, recs, verdicts, what=what)
    per_fn, seen, clauses, drifts = {}, set(), {}, {}
    for j, r, v in zip(jobs, recs, verdicts):
        per_fn[r["fn"]] = per_fn.get(r["fn"], 0) + 1
        clauses[v[0]] = clauses.get(v[0], 0) + 1
        if r["kind"] == "cp":
            drifts[v[1]] = drifts.get(v[1], 0) + 1
        body = r.get("W") or r.get("M")
        cells = sum(1 for row in body for x in row if x) if body else 0
        if not v[0].startswith("skip") and cells >= 2:
            seen.add((r["fn"], json.dumps(body), json.dumps([r.get(k) for k in ("gp", "gq", "cinit", "picks", "ci")])))
    ctx.nontrivial = len(seen)
    ctx.exhaustive = True
    ctx.extra["records_per_function"] = per_fn
    ctx.extra["verdict_counts"] = clauses
    ctx.extra["core_periphery_drift"] = drifts
    ctx.rule = ("core_periphery_dir: every digraph on 2..3 nodes x every start (as list) + array start + drawn "
                "start with real / first / last tie-break; %s digraphs on 4 nodes (given and drawn start, gamma "
                "in {1, 1/2, 3/2}); random / planted / tie-rich weighted digraphs on 5..10 nodes, weights <= 9, five "
                "gammas; reorder_mod: random weighted matrices n <= 7 with 1..4 modules, every two-module "
                "affiliation n <= 4; reorder_matrix / reorderMAT / align_matrices: random matrices n <= 7; "
                "link_communities: random matrices n <= 7; non-trivial = distinct (function, input, start, draws) "
                "judged on a matrix with >= 2 non-zero cells" % ("1200 sampled" if ctx.quick else "all"))
    for k in (0, len(jobs) // 2, len(jobs) - 1):
        ctx.add_sample("input", dict(job=jobs[k], record=recs[k], verdict=list(verdicts[k])))
    ctx.assumptions += [
        "TLC evaluates the L0 definitions of spec/CorePeriphery.tla correctly",
        "integer weights and rational gamma: the core-ness is judged exactly (q * D rounded by the harness, "
        "residual <= 10^-5); the code's tolerance 1e-10 coincides with exact comparison on this domain",
        "core_periphery_dir on a matrix without connections (0/0) or with negative weights: skipped",
        "the start given as a Python list is accepted by the code although the docstring names an array; both are run",
        "simulated-annealing cost claims of the re-ordering routines are not judged; link_communities: shape only",
    ]
    return ctx.finish()


def replay(ctx, rp):
    j = rp["job"]
    recs = pool.run_jobs(__name__, [j])
    verdicts = ctx.validate(TLA, CFG, recs)
    core.log("replay verdict:", verdicts[0], what(j, recs[0], verdicts[0][0]))
    ctx.judge([j], recs, verdicts, what=what)
    return ctx.finish()
