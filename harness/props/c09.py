"""C09 - clustering coefficients and transitivity equal their triangle definitions.

mc:       spec/ClusteringImpl.tla - the statement-by-statement pipelines of
          clustering_coef_bu/bd/wu/wd/wu_sign(default|zhang|costantini) and
          transitivity_bu/bd/wu/wd (cyc3 = diag(S^3)/2, K = inf where cyc3 == 0,
          CYC3 = K(K-1) - 2 diag(A^2), ...) equal the published definitions written as
          enumerations of ordered node triples (spec/Clustering.tla, L0) on EVERY
          undirected binary graph n<=5 (6 thorough), directed binary n<=4, weighted
          c in 0..3 (w = (c/3)^3) undirected n<=4 / directed n<=3, signed n<=3,4;
          InUnitInterval, ZeroWhenNoTriangleOrDegLT2, MaskInv, HalvingExact, ...
gen/run:  the nine real functions on every model graph (TLC-enumerated; isolated nodes,
          stars, triangle-free graphs included) binary / weighted / signed, int-dtype
          binary inputs, and seeded random + structured graphs n in 6..10; plus the SCALE
          regimes (scale_jobs): dense 25..60-node networks (dense block + sparse tail + isolated
          node, dense G(n,p), rings of big cliques, complete) undirected and oriented, handed as
          float64/int64/int32/int16/uint16/int8/uint8/bool arrays, and 130..300-node networks
          (hub of degree > 127 / > 181, rings of many small cliques, isolated nodes).
validate: spec/Trace_Clustering.tla judges every record (EqualsDefinition exact fraction vs
          10^-6 fixed point, ExactZeroCases from a per-entry `== 0.0` flag, Range01, Returns).
          Records with more than 10 nodes are judged against the same definitions enumerated
          over pairs of neighbours (Clustering.tla Part 1b; equality with the node-triple
          enumeration is an invariant of every MC_Clustering instance).

Numbers: the harness sends the integer matrix C of cube-root numerators and d; the float
input is W = sign(C) * (|C|/d)**3, so every expected value is an exact fraction in TLC.

Defect witness found by TLC (MC_Clustering_witness.cfg): transitivity_wd on the digraph
{3->2, 4->2, 4->3} + isolated node 1 returns 0.0, definition 1/2 (clustering.py:693).
"""
import random
import threading

import numpy as np

from .. import core, encode, inputs, pool
from . import rel_common as rc

FN_BU = "clustering_coef_bu"
FN_BD = "clustering_coef_bd"
FN_WU = "clustering_coef_wu"
FN_WD = "clustering_coef_wd"
FN_SD = "clustering_coef_wu_sign[default]"
FN_SZ = "clustering_coef_wu_sign[zhang]"
FN_SC = "clustering_coef_wu_sign[costantini]"
FN_TBU = "transitivity_bu"
FN_TBD = "transitivity_bd"
FN_TWU = "transitivity_wu"
FN_TWD = "transitivity_wd"

SIGN = [FN_SD, FN_SZ, FN_SC]
UND_BIN = [FN_BU, FN_WU, FN_TBU, FN_TWU] + SIGN + [FN_BD, FN_WD, FN_TBD, FN_TWD]
UND_W = [FN_WU, FN_TWU, FN_WD, FN_TWD] + SIGN
DIR_BIN = [FN_BD, FN_WD, FN_TBD, FN_TWD]
DIR_W = [FN_WD, FN_TWD]


def _call(fn, W):
    import bct
    if fn == FN_SD:
        return list(bct.clustering_coef_wu_sign(W, "default"))
    if fn == FN_SZ:
        return list(bct.clustering_coef_wu_sign(W, "zhang"))
    if fn == FN_SC:
        return [bct.clustering_coef_wu_sign(W, "costantini")]
    f = getattr(bct, fn)
    return [f(W)]


def _q(x):
    try:
        return encode.e_q(x)
    except ValueError:            # |x| >= 1000: cannot be a value in [-1, 1]; keep it non-finite
        return encode.INF if x > 0 else encode.NINF


BINARY_FNS = (FN_BU, FN_BD, FN_TBU, FN_TBD)
NP_DTYPE = {"float": "float64", "int": "int64"}       # historical job spellings


def arg_dtype(fn, dtype):
    """what routine `fn` may be handed for a drawn dtype (rel_common.admissible): bool only to the
    four routines documented for binary networks; every output is a ratio (real-valued) -> no
    float32; none of them copies its argument to float before doing arithmetic on it -> no uint8"""
    return rc.admissible(NP_DTYPE.get(dtype, dtype), binary=fn in BINARY_FNS)


WEIGHTED_FNS = (FN_WU, FN_WD, FN_TWU, FN_TWD)
SMALL_INTS = ("int8", "uint8", "int16", "uint16")
DT_SCALE = ("float64", "int64", "int32", "int16", "uint16", "int8", "uint8", "bool")     # 0/1 entries
DT_SCALE_SIGNED = ("float64", "int64", "int32", "int16", "int8")                          # -1/0/+1 entries


def scale_dtype(fn, dtype):
    """as arg_dtype, but 8- and 16-bit integer arrays (entries 0/1, or -1/0/+1 for the signed
    types) reach the routines whose first use of an entry is its cube root: the four weighted
    routines (`W == 0` and cuberoot(W): float64 from there on) and clustering_coef_wu_sign
    [default] (sign split `W * (W > 0)`, `-W * (W < 0)` - exact in a SIGNED type - then cuberoot).
    A compactly stored 0/1 network is inside their documented domain (NxN weighted connection
    matrix, weights in [0,1]); no sum or product of entries is formed in the argument's own type,
    so the wrap-around caveat of rel_common (uint8) does not apply to them.  The binary routines
    and the zhang/costantini branches (products of raw entries) keep the common mapping."""
    if dtype in SMALL_INTS:
        if fn in WEIGHTED_FNS:
            return dtype
        if fn == FN_SD:
            return dtype.lstrip("u")                     # uint8 -> int8, uint16 -> int16
        return "int32"
    return arg_dtype(fn, dtype)


def exec_job(job):
    C = np.array(job["C"], dtype=np.int64)
    d = int(job["d"])
    n = len(C)
    dtype = NP_DTYPE.get(job.get("dtype", "float"), job.get("dtype", "float"))
    # r.dtype is read by the spec for the input class only ("float" = the plain class)
    rec = dict(fn=job["fn"], n=n, C=C.tolist(), d=d,
               dtype={"float64": "float", "int64": "int"}.get(dtype, dtype), raised="", out=[], zero=[])
    W0 = np.sign(C) * (np.abs(C) / float(d)) ** 3     # weights (c/d)^3; d = 1: W == C
    # the same matrix as another dtype (only when d = 1: integer-valued) / memory layout
    W = rc.as_variant(W0, dtype, job.get("layout", "C"))
    # the container the caller holds the matrix in (seed round 7): nested lists, tuples of tuples,
    # np.matrix - for the routines that convert their argument first on the unchanged tree
    # (clustering_coef_bd, transitivity_bu, transitivity_bd: sampled equal to the ndarray call)
    form = job.get("form")
    if form == "list":
        W = np.asarray(W).tolist()
    elif form == "tuple":
        W = tuple(map(tuple, np.asarray(W).tolist()))
    elif form == "matrix":
        W = np.asmatrix(W)
    try:
        res = _call(job["fn"], W)
    except Exception as e:
        rec["raised"] = encode.exc_name(e)
        return rec
    for v in res:
        v = np.asarray(v, dtype=float).ravel()
        rec["out"].append([_q(x) for x in v])
        rec["zero"].append([1 if float(x) == 0.0 else 0 for x in v])
    return rec


# ------------------------------------------------------------------ inputs
def cmat(n, edges, und, val):
    C = [[0] * n for _ in range(n)]
    for (i, j) in edges:
        v = val(i, j)
        C[i][j] = v
        if und:
            C[j][i] = v
    return C


def add_jobs(jobs, fns, C, d, src, dtype="float", layout="C", mapping=arg_dtype):
    """dtype: 'float' (float64), 'int' (int64) or a numpy dtype name = the input's DRAW; each
    routine is handed mapping(fn, draw).  Non-float dtypes need d = 1 (integer-valued W)."""
    for fn in fns:
        eff = mapping(fn, dtype) if d == 1 else "float64"
        jobs.append(dict(fn=fn, C=C, d=d, dtype={"float64": "float", "int64": "int"}.get(eff, eff),
                         layout=layout, src=src))


WSETS = [[1, 2, 3, 3], [1, 2, 3, 3], [1, 2, 3], [3], [2], [1], [1, 3]]     # 3/3 = weight exactly 1; single value: all ties


def decorate(jobs, rng, n, edges, und, src, weighted=True, und_as_dir=True, variant=None):
    """binary / weighted / signed versions of one support.  variant: draw the argument dtype
    (binary and unit-signed versions: integer-valued) and memory layout, and the weight set."""
    fns = (UND_BIN if und_as_dir else UND_BIN[:7]) if und else DIR_BIN
    dv = (lambda fam: rc.draw_variant(rng, fam, variant)) if variant is not None else (lambda fam: ("float", "C"))
    add_jobs(jobs, fns, cmat(n, edges, und, lambda i, j: 1), 1, src, *dv(rc.DT_BIN))
    if weighted:
        ws = rng.choice(WSETS) if variant is not None else WSETS[0]
        add_jobs(jobs, UND_W if und else DIR_W,
                 cmat(n, edges, und, lambda i, j: rng.choice(ws)), 3, src + "-w", *dv(rc.DT_FLOAT))
        if und:
            add_jobs(jobs, SIGN,
                     cmat(n, edges, und, lambda i, j: rng.choice([-3, -2, -1, 1, 2, 3])), 3,
                     src + "-signed", *dv(rc.DT_FLOAT))
            if variant is not None:     # weights exactly -1 / +1: a signed network as an integer array
                add_jobs(jobs, SIGN, cmat(n, edges, und, lambda i, j: rng.choice([-1, 1])), 1,
                         src + "-signed-unit", *dv(rc.DT_SIGNED))


def structured(rng, n, kind):
    """edge lists (i<j) of graphs the sample matrices of the test-suite never look like."""
    E = set()
    if kind == "star":
        E = {(0, j) for j in range(1, n)}
    elif kind == "star+chords":
        E = {(0, j) for j in range(1, n)}
        for _ in range(rng.randint(1, 3)):
            a, b = sorted(rng.sample(range(1, n), 2))
            E.add((a, b))
    elif kind == "triangles+isolated":
        k = rng.randint(1, n // 3)
        for t in range(k):
            a, b, c = 3 * t, 3 * t + 1, 3 * t + 2
            E |= {(a, b), (b, c), (a, c)}
        if 3 * k + 1 < n and rng.random() < 0.5:
            E.add((3 * k, 3 * k + 1))                     # a lone edge
    elif kind == "bipartite":
        left = set(rng.sample(range(n), n // 2))
        for i in range(n):
            for j in range(i + 1, n):
                if ((i in left) != (j in left)) and rng.random() < 0.7:
                    E.add((i, j))
    elif kind == "ring":
        E = {tuple(sorted((i, (i + 1) % n))) for i in range(n)}
    elif kind == "complete":
        E = {(i, j) for i in range(n) for j in range(i + 1, n)}
    elif kind == "complete-minus":
        E = {(i, j) for i in range(n) for j in range(i + 1, n)}
        for e in rng.sample(sorted(E), rng.randint(1, n)):
            E.discard(e)
    perm = list(range(n))
    rng.shuffle(perm)
    return sorted(tuple(sorted((perm[i], perm[j]))) for (i, j) in E)


KINDS = ["star", "star+chords", "triangles+isolated", "bipartite", "ring", "complete",
         "complete-minus"]


def build_jobs(ctx):
    rng = random.Random(ctx.seed)
    jobs = []
    # --- every model graph
    for n in ([3, 4, 5] if ctx.quick else [3, 4, 5, 6]):
        graphs = inputs.model_graphs(ctx, "und", n)
        for gi, edges in enumerate(graphs):
            src = "model-und%d" % n
            if n == 6:
                # 32768 graphs: the two binary undirected routines on all of them, the other
                # undirected ones on 1 in 8, weighted/signed versions on half of those (RNG-drawn)
                if rng.random() < 0.125:
                    decorate(jobs, rng, n, edges, True, src, weighted=rng.random() < 0.5, und_as_dir=False)
                else:
                    add_jobs(jobs, [FN_BU, FN_TBU], cmat(n, edges, True, lambda i, j: 1), 1, src)
                continue
            # all binary; weighted/signed: all for n <= 4, a drawn half (quick) / all (thorough) for
            # n = 5; the directed functions on symmetric input: n <= 4 (quick) / n <= 5 (thorough)
            # - every digraph on 4 nodes is covered below anyway
            full = n <= 4 or not ctx.quick or rng.random() < 0.5
            decorate(jobs, rng, n, edges, True, src, weighted=full,
                     und_as_dir=(n <= 4 or not ctx.quick))
    for n in [3, 4]:
        graphs = inputs.model_graphs(ctx, "dir", n)
        for gi, edges in enumerate(graphs):
            full = n == 3 or not ctx.quick or rng.random() < 0.25
            decorate(jobs, rng, n, edges, False, "model-dir%d" % n, weighted=full)
    # --- the model networks again as another argument dtype (binary: int64/int32/bool; weights
    #     -1/+1: int64/int32) and memory layout (Fortran, transposed, window, strided)
    for n, cap in ((4, None), (5, 200 if ctx.quick else None)):
        for edges in inputs.sample(rng, inputs.model_graphs(ctx, "und", n), cap or 10 ** 9):
            decorate(jobs, rng, n, edges, True, "model-und%d-variant" % n, weighted=rng.random() < 0.3,
                     und_as_dir=True, variant=0.0)
    for edges in inputs.sample(rng, inputs.model_graphs(ctx, "dir", 4), 250 if ctx.quick else 4096):
        decorate(jobs, rng, 4, edges, False, "model-dir4-variant", weighted=rng.random() < 0.3, variant=0.0)
    # --- seeded random and structured graphs, n in 6..10; shape, direction, density, weight set,
    #     dtype and layout are independent draws
    nrand = 120 if ctx.quick else 1000
    for k in range(nrand):
        n = rng.randint(6, 10)
        r = rng.random()
        if r < 0.35:
            kind = rng.choice(KINDS)
            edges = structured(rng, n, kind)
        elif r < 0.55:
            kind, n, edges = rc.structured_support(rng, 6, 10)
        if r < 0.55:
            if rng.random() < 0.5:
                decorate(jobs, rng, n, edges, True, "struct-" + kind, variant=0.4)
            else:   # orient it: each edge one way, the other way, or both
                decorate(jobs, rng, n, rc.orient(rng, edges), False, "struct-dir-" + kind, variant=0.4)
        else:
            p = rng.choice([0.1, 0.2, 0.35, 0.6])
            und = rng.random() < 0.5
            edges = [(i, j) for i in range(n) for j in range(n)
                     if (i < j if und else i != j) and rng.random() < p]
            decorate(jobs, rng, n, edges, und, "random-" + ("und" if und else "dir"), variant=0.4)
    return jobs


# ------------------------------------------------------------------ scale regimes
# Everything above has at most 10 nodes: no degree, triangle count or sum leaves the range in which
# EVERY number type is exact.  The families below visit the other regimes, a few inputs each:
#  dense, 25..60 nodes   per-node triangle counts > 127 and > 2048, their sum > 2048 (26+ nodes),
#                        > 32767 and > 65504 (46+ nodes): the ranges of int8 / float16-exact /
#                        int16 / float16 / uint16 - for a narrow accumulator, an intermediate in
#                        the ARGUMENT's type (8/16-bit integer, bool arrays), a rounded count;
#  hub, 130..300 nodes   a degree K > 127 and K(K-1) > 32767; node numbers > 127 / > 255;
#  many small cliques    130..300 nodes, all counts tiny, node numbers large, isolated nodes.
# Each support mixes nodes on many triangles with nodes on none (pendant path, isolated node).
NO_LOOPS = [FN_BU, FN_WU, FN_TBU, FN_TWU, FN_SD, FN_BD, FN_WD, FN_TBD, FN_TWD]    # no O(n^3) python loop


def _renumber(rng, n, E):
    perm = list(range(n))
    rng.shuffle(perm)
    return sorted(set(tuple(sorted((perm[i], perm[j]))) for i, j in E if i != j))


def s_block_tail(rng, m, t):
    """dense block of m nodes (a clique minus a few edges), a pendant path of t nodes, one
    isolated node -> (n, edges)"""
    E = set(rc.s_complete(m))
    for e in rng.sample(sorted(E), rng.randint(0, m)):
        E.discard(e)
    prev = rng.randrange(m)
    for v in range(m, m + t):
        E.add((prev, v))
        prev = v
    return m + t + 1, sorted(E)


def s_hub(rng, n):
    """node 0 joined to every node but the last (isolated) one; the rim carries a ring, a ring of
    small cliques or a few chords -> triangles at the hub, rim nodes with and without"""
    r = n - 2
    E = [(0, j) for j in range(1, r + 1)]
    kind = rng.choice(["wheel", "cliques", "chords"])
    if kind == "wheel":
        E += [(1 + i, 1 + (i + 1) % r) for i in range(r)]
    elif kind == "cliques":
        m = rng.choice([3, 4, 5])
        E += [(1 + i, 1 + j) for (i, j) in rc.s_clique_ring(r // m, m)]
    else:
        for _ in range(rng.randint(3, 40)):
            a, b = rng.sample(range(1, r + 1), 2)
            E.append((a, b))
    return kind, E


def scale_supports(ctx, rng):
    """-> list of (name, n, undirected edge list, regime)"""
    out = []

    def put(name, n, E, regime):
        out.append((name, n, _renumber(rng, n, E), regime))
    reps = 1 if ctx.quick else 3
    for rep in range(reps):
        # dense, beyond 2048 but below 32767
        n, E = s_block_tail(rng, rng.randint(27, 40), rng.randint(2, 6))
        put("block+tail+isolated", n, E, "dense")
        n = rng.randint(26, 40)
        p = rng.choice([0.7, 0.85, 0.95])
        put("dense-random", n, [(i, j) for i in range(n) for j in range(i + 1, n) if rng.random() < p], "dense")
        k, m = rng.choice([(2, 25), (2, 30), (3, 14), (3, 18), (4, 12)])
        put("ring-of-big-cliques", k * m + 1, rc.s_clique_ring(k, m), "dense")
        # dense, beyond 65535
        n, E = s_block_tail(rng, rng.randint(48, 56), rng.randint(2, 5))
        put("block+tail+isolated", n, E, "dense-big")
        # many nodes
        n = rng.randint(260, 300) if rep == 0 else rng.randint(130, 300)     # hub degree > 255 at least once
        kind, E = s_hub(rng, n)
        put("hub-" + kind, n, E, "many-nodes")
        m = rng.choice([3, 3, 4])
        k = rng.randint(130, 260) // m
        put("ring-of-small-cliques+isolated", k * m + rng.randint(1, 4), rc.s_clique_ring(k, m), "many-nodes")
    # beyond the block / buffer constants a blocked implementation would use (the library's own
    # buffered loop, agreement(), works in blocks of 1000): 1001..1300 nodes, never a multiple of a
    # round block size, sparse (ring of small cliques + chords + isolated nodes), triangles everywhere
    for rep in range(1 if ctx.quick else 3):
        m = rng.choice([3, 4])
        k = rng.randint(1001 // m + 1, 1290 // m)
        n = k * m + rng.randint(1, 7)
        while n % 64 == 0 or n % 100 == 0:
            n += 1
        E = set(rc.s_clique_ring(k, m))
        for _ in range(n // 3):
            a, b = rng.randrange(k * m), rng.randrange(k * m)
            if a != b:
                E.add((min(a, b), max(a, b)))
        put("ring-of-small-cliques+chords+isolated", n, sorted(E), "beyond-1000")
    if not ctx.quick:
        for n in (rng.randint(26, 45), rng.randint(46, 60)):
            put("complete", n, rc.s_complete(n), "dense")             # every value exactly 1
            put("dense-random", n, [(i, j) for i in range(n) for j in range(i + 1, n) if rng.random() < 0.9],
                "dense-big" if n > 45 else "dense")
    return out


def scale_jobs(ctx):
    rng = random.Random(ctx.seed * 7919 + 9)
    jobs = []
    for name, n, E, regime in scale_supports(ctx, rng):
        src = "scale-%s-%s" % (regime, name)
        lay = lambda: rng.choice(rc.LAYOUTS)
        und_fns = UND_BIN if n <= 45 else [f for f in UND_BIN if f in NO_LOOPS]
        ones = cmat(n, E, True, lambda i, j: 1)
        if regime == "beyond-1000":  # one call per routine (records of a megabyte each)
            arcs = rc.orient(rng, E)
            dones = cmat(n, arcs, False, lambda i, j: 1)
            add_jobs(jobs, [FN_BU, FN_TBU, FN_WU, FN_TWU], ones, 1, src, rng.choice(["float", "int", "int32"]), "C",
                     mapping=scale_dtype)
            add_jobs(jobs, [FN_BD, FN_TBD, FN_WD, FN_TWD], dones, 1, src + "-dir", rng.choice(["float", "int"]), "C",
                     mapping=scale_dtype)
            continue
        if rng.random() < 0.5:      # orient: every connection one way, the other way, or both
            arcs = rc.orient(rng, E)
        else:                       # a reciprocal core (low-numbered nodes), the rest low -> high
            q = rng.randint(2, max(2, n // 3))
            arcs = [(i, j) for (i, j) in E] + [(j, i) for (i, j) in E if j < q]
        dones = cmat(n, arcs, False, lambda i, j: 1)
        # (a) one drawn dtype for all routines (each is handed scale_dtype(fn, draw))
        add_jobs(jobs, und_fns, ones, 1, src, rng.choice(DT_SCALE), lay(), mapping=scale_dtype)
        add_jobs(jobs, DIR_BIN, dones, 1, src + "-dir", rng.choice(DT_SCALE), lay(), mapping=scale_dtype)
        # (b) the routines that admit 8/16-bit integer arrays: two of them drawn, 8-bit first
        for dt in [rng.choice(["int8", "uint8"]), rng.choice(SMALL_INTS)]:
            add_jobs(jobs, [FN_WU, FN_TWU, FN_SD], ones, 1, src, dt, lay(), mapping=scale_dtype)
            add_jobs(jobs, [FN_WD, FN_TWD], dones, 1, src + "-dir", dt, lay(), mapping=scale_dtype)
        if regime == "many-nodes":  # every connection reciprocal: > 127 / > 255 reciprocal pairs at the hub
            add_jobs(jobs, [FN_WD, FN_TWD], ones, 1, src, rng.choice(["int8", "uint8"]), lay(), mapping=scale_dtype)
            continue
        # (c) weights -1/+1 as a signed integer array; fractional weights (c/3)^3 (float64)
        if n <= 45:
            sgn = cmat(n, E, True, lambda i, j: rng.choice([-1, 1]))
            add_jobs(jobs, SIGN, sgn, 1, src + "-signed-unit", rng.choice(DT_SCALE_SIGNED), lay(),
                     mapping=scale_dtype)
            ws = rng.choice(WSETS)
            add_jobs(jobs, UND_W, cmat(n, E, True, lambda i, j: rng.choice(ws)), 3, src + "-w", "float", lay())
            add_jobs(jobs, DIR_W, cmat(n, arcs, False, lambda i, j: rng.choice(ws)), 3, src + "-dir-w", "float", lay())
    return jobs


QUICK_MODELS = ["und_bin5", "dir_bin4", "und_w4", "dir_w3", "und_sign3", "und_sign4"]
THOROUGH_MODELS = ["und_bin6", "dir_bin4", "und_w4all", "und_w5", "dir_w3", "und_sign3",
                   "und_sign4b", "und_sign4c"]


def run_models(ctx, names, par=4):
    """the model instances are independent: run `par` TLC processes side by side."""
    errs = []
    sem = threading.Semaphore(par)

    def one(name):
        with sem:
            try:
                ctx.mc("MC_Clustering.tla", "MC_Clustering_%s.cfg" % name, tag="mc_" + name)
            except Exception as e:          # MachineryError included
                errs.append(e)
    ths = [threading.Thread(target=one, args=(m,)) for m in names]
    for t in ths:
        t.start()
    for t in ths:
        t.join()
    if errs:
        raise errs[0]


def validate_parallel(ctx, recs, parts=6, par=3):
    """split the records into `parts` batches judged by `par` TLC processes side by side."""
    if len(recs) < 2000:
        return ctx.validate("Trace_Clustering.tla", "Trace_Clustering.cfg", recs)
    size = (len(recs) + parts - 1) // parts
    out = [None] * parts
    errs = []
    sem = threading.Semaphore(par)

    def one(k):
        with sem:
            try:
                out[k] = ctx.validate("Trace_Clustering.tla", "Trace_Clustering.cfg",
                                      recs[k * size:(k + 1) * size], tag="Trace_Clustering_p%d" % k,
                                      chunk=size + 1)
            except Exception as e:
                errs.append(e)
    ths = [threading.Thread(target=one, args=(k,)) for k in range(parts)]
    for t in ths:
        t.start()
    for t in ths:
        t.join()
    if errs:
        raise errs[0]
    return [v for part in out for v in part]


def what(job, rec, clause):
    n, C, out = rec["n"], rec["C"], rec["out"]
    if n > 12:          # the replay file holds the matrix
        C = "<%dx%d, %d nonzero entries: see the replay file>" % (n, n, sum(1 for row in C for v in row if v))
        out = [v[:12] + (["..."] if len(v) > 12 else []) for v in out]
    return "src=%s n=%d d=%d dtype=%s layout=%s C=%s out=%s raised=%s" % (
        job.get("src"), n, rec["d"], rec["dtype"], job.get("layout", "C"), C, out, rec["raised"])


def run(ctx):
    run_models(ctx, QUICK_MODELS if ctx.quick else THOROUGH_MODELS)
    jobs = build_jobs(ctx)
    sjobs = scale_jobs(ctx)
    # the scale records: their own pool call (pool chunks would put all the long calls into one
    # worker) and their own TLC run, side by side with the batches of small records
    srecs = pool.run_jobs(__name__, sjobs, limit=120.0, reuse=True)
    box = {}

    def judge_scale():
        try:
            box["v"] = ctx.validate("Trace_Clustering.tla", "Trace_Clustering.cfg", srecs,
                                    tag="Trace_Clustering_scale")
        except Exception as e:
            box["e"] = e
    th = threading.Thread(target=judge_scale)
    th.start()
    frng = random.Random(ctx.seed * 19 + 9)
    for j in jobs:            # argument container: an independent draw for the routines that take any array-like
        if j["fn"] in ("clustering_coef_bd", "transitivity_bu", "transitivity_bd") and frng.random() < 0.25:
            j["form"] = frng.choice(["list", "tuple", "matrix"])
    recs = pool.run_jobs(__name__, jobs, reuse=True, abort=True, strict_fp=True)
    verdicts = validate_parallel(ctx, recs)
    th.join()
    if "e" in box:
        raise box["e"]
    nbase = len(jobs)
    jobs, recs, verdicts = jobs + sjobs, recs + srecs, verdicts + box["v"]
    tagjobs = [dict(j, dtype=NP_DTYPE.get(j.get("dtype", "float"), j.get("dtype"))) for j in jobs]
    ctx.judge(jobs, rc.tag_failures(ctx, tagjobs, recs, verdicts), verdicts, what=what)
    ctx.extra["argument_variants"] = rc.variant_counts(tagjobs)
    # non-trivial (spec-computed input class): a node on a triangle next to a node that is on none
    seen = set()
    per_fn = {}
    for j, r, v in zip(jobs, recs, verdicts):
        per_fn[r["fn"]] = per_fn.get(r["fn"], 0) + 1
        if v[2].startswith("some_node_triangle_free"):
            seen.add((r["fn"], r["d"], str(r["C"])))
    ctx.nontrivial = len(seen)
    ctx.exhaustive = True
    ctx.extra["records_per_function"] = per_fn
    ctx.rule = ("every undirected graph on 3..%d nodes and every digraph on 3..4 nodes (TLC-enumerated; "
                "binary for all applicable functions, plus weights (c/3)^3, c in 1..3, and random signs; "
                "%s), the 4-node (sampled 5-node) networks again as int64/int32/bool arrays (binary), int arrays "
                "with weights -1/+1 (signed) and in other memory layouts (Fortran, transposed, window, strided), "
                "%d seeded structured (stars, disjoint triangles with isolated nodes, bipartite, rings, complete, "
                "paths, caterpillars, rings of cliques, equal/unequal components) and random graphs n in 6..10, "
                "directed and undirected, weight sets incl. single values and exactly 1, dtype/layout/option "
                "choices drawn independently from the seeded RNG; scale regimes: dense 26..60-node networks "
                "(dense block + pendant path + isolated node, dense G(n,p), rings of big cliques, complete) and "
                "130..300-node networks (hub of degree > 127, rings of many small cliques, isolated nodes), "
                "undirected and oriented, 0/1 entries as float64/int64/int32/bool and - for the weighted "
                "routines - int16/uint16/int8/uint8 arrays, -1/+1 and (c/3)^3 weights up to 45 nodes; non-trivial = distinct (function, input) in which some node lies on a triangle "
                "and some node lies on none" % (
                    5 if ctx.quick else 6,
                    "weighted versions of a drawn half of the 5-node graphs and quarter of the 4-node digraphs"
                    if ctx.quick else
                    "on 6 nodes: bu/transitivity_bu on all, the other undirected functions on a drawn 1/8, "
                    "weighted/signed on half of those", 120 if ctx.quick else 1000))
    for k in (0, nbase // 2, nbase - 1):
        ctx.add_sample("input", dict(job=jobs[k], record=recs[k], verdict=list(verdicts[k])))
    sc = {}
    for j, r, v in zip(sjobs, srecs, box["v"]):
        key = "%s n=%d" % (j["src"], r.get("n", 0))
        sc.setdefault(key, {}).setdefault("%s:%s" % (j["dtype"], v[0]), []).append(j["fn"])
    ctx.extra["scale_inputs"] = sc
    ctx.assumptions += [
        "TLC evaluates the L0 triple-enumeration definitions correctly",
        "weighted/signed conformance only on cube-rational weights (c/3)^3, c in -3..3 (DESIGN 3.3, 7)",
        "observed floats compared at 10^-6 (tolerance 2 units); exact-zero claims from a `== 0.0` flag",
        "a transitivity of a network without any connected triple is undefined (0/0) and skipped",
        "records with more than 10 nodes: definitions enumerated over pairs of neighbours (TLC proves them "
        "equal to the node-triple enumeration on every model input); drift not evaluated above 12 nodes",
        "8/16-bit integer arrays only to the routines that take the cube root of the entries first "
        "(weighted routines, wu_sign[default] signed types); float32 arrays to none (errors below 10^-6 "
        "are not observable)",
    ]
    return ctx.finish()


def replay(ctx, rp):
    job = rp["job"]
    recs = pool.run_jobs(__name__, [job])
    verdicts = ctx.validate("Trace_Clustering.tla", "Trace_Clustering.cfg", recs)
    core.log("replay verdict:", verdicts[0], what(job, recs[0], verdicts[0][0]))
    ctx.judge([job], recs, verdicts, what=what)
    return ctx.finish()
