"""C03 - shortest-path distance matrices equal true minimum path lengths.

mc:       spec/DistanceImpl.tla - the Dijkstra loop of distance_wei, the Floyd-Warshall
          loop of distance_wei_floyd, the algebraic loop of distance_bin, the BFS of
          breadth/breadthdist and the boolean powers of reachdist as machines; TLC proves
          on every small input that each terminates with D = Dist (two independent L0
          definitions), hops in MinHops, R <=> finite (spec/MC_Distance_c03*.cfg).
gen/run:  the five routines, charpath, efficiency_bin, efficiency_wei (global),
          rout_efficiency on every TLC-enumerated digraph n<=3(4) / graph n<=4(5) with
          tie-rich lengths, each transform, self-loops, and seeded random graphs n<=12.
validate: spec/Trace_Distance.tla judges every record (one record per real call).

Python only calls bctpy and encodes numbers.  Encoding of lengths (exact):
  mode bin : 0/1 matrix, length 1 per connection
  mode len : integer lengths from {1,2,3}
  mode inv : weights {1,1/2,1/4} -> lengths {1,2,4}
  mode log : weights 2^-k, k in {0,1,2} -> lengths k (units of ln 2; observed values are
             divided by ln 2 and must then be integral up to 1e-9)
"""
import math
import random

import numpy as np

from .. import core, encode, inputs, pool
from . import rel_common as rc

LN2 = math.log(2.0)
TLA, CFG = "Trace_Distance.tla", "Trace_Distance.cfg"
TRANSFORM = {"bin": None, "len": None, "inv": "inv", "log": "log"}


# ----------------------------------------------------------------- encoding
def lm_of(K):
    """length matrix for TLC from the integer code matrix K (-1 = no connection)."""
    return [[encode.INF if v < 0 else int(v) for v in row] for row in K]


def input_of(K, mode):
    """the float matrix handed to bctpy, built from the integer code matrix K."""
    K = np.array(K, dtype=float)
    A = np.zeros_like(K)
    m = K >= 0
    if mode in ("bin", "len"):
        A[m] = K[m]
    elif mode == "inv":
        A[m] = 1.0 / K[m]
    elif mode == "log":
        A[m] = 2.0 ** (-K[m])
    return A


def e_len(x, mode):
    """observed path length -> exact int in the units of Lm (ValueError if not integral)."""
    x = float(x)
    if mode == "log" and np.isfinite(x):
        y = x / LN2
        if abs(y - round(y)) > 1e-9:
            raise ValueError("length is not a multiple of ln 2: %r" % x)
        return int(round(y))
    return encode.e_int(x)


def mat_len(D, mode):
    return [[e_len(v, mode) for v in row] for row in np.asarray(D)]


def e_eff(x, mode):
    return encode.e_q(float(x) * LN2 if mode == "log" else float(x))


# ------------------------------------------------------------------ one call
def base_record(job):
    return dict(fn=job["fn"], kind=job["kind"], algo=job.get("algo", ""), mode=job["mode"],
                n=len(job["K"]), Lm=lm_of(job["K"]), raised="", malformed="",
                D=[], R=[], B=[], P=[], Ds=[], Din=[], lam=-1, eff=-1,
                rows=[r + 1 for r in job.get("rows", [])],
                diag0=1 if job["fn"].startswith("distance_") else 0)


def call_distance(name, A, mode, L=None):
    """-> (D, R or None, B or None, P or None) of one distance routine.  A and L are thunks that
    build a fresh argument array (so that a non-contiguous layout survives: ndarray.copy() would
    return a C-contiguous array)."""
    import bct
    if name == "distance_bin":
        return bct.distance_bin(A()), None, None, None
    if name == "breadthdist":
        R, D = bct.breadthdist(A())
        return D, R, None, None
    if name == "reachdist":
        R, D = bct.reachdist(A())
        return D, R, None, None
    if name == "distance_wei":
        D, B = bct.distance_wei(L())
        return D, None, B, None
    if name == "distance_wei_floyd":
        D, B, P = bct.distance_wei_floyd(A(), transform=TRANSFORM[mode])
        return D, None, B, P
    raise KeyError(name)


_BLAS_DONE = []


def single_thread_blas():
    """speed only: the pool runs one worker process per core, and OpenBLAS starts a thread per core in
    each of them for matrix products beyond ~128 nodes (measured on a loaded machine: distance_bin on
    211 nodes 33 s instead of 0.07 s).  Called once per worker before a scale-regime job."""
    if _BLAS_DONE:
        return
    _BLAS_DONE.append(1)
    import ctypes
    import glob
    import os
    for lib in glob.glob(os.path.join(os.path.dirname(np.__file__), os.pardir, "numpy.libs", "libscipy_openblas*.so*")):
        try:
            L = ctypes.CDLL(lib)
        except OSError:
            continue
        for sym in ("scipy_openblas_set_num_threads64_", "openblas_set_num_threads64_", "openblas_set_num_threads"):
            if hasattr(L, sym):
                getattr(L, sym)(1)
                return


def exec_job(job):
    import bct
    if job.get("big"):
        single_thread_blas()
    rec = base_record(job)
    mode = job["mode"]
    # the SAME mathematical matrix as another dtype / memory layout (rel_common): the record for
    # TLC (Lm) is built from the integer codes, only the array handed to bctpy changes; which
    # dtype a routine may get for the job's draw is decided by arg_dtype (below).
    dt, lay = job.get("draw", job.get("dtype", "float64")), job.get("layout", "C")
    A0 = input_of(job["K"], mode)
    L0 = input_of(job["K"], "len")         # the same lengths as a plain length matrix
    L0[L0 < 0] = 0
    # magnitude family (seed round 7): every length multiplied by 2**pow2 (pow2 = -27..-40: lengths of
    # 1e-8..1e-12, e.g. 1/weight of large counts).  A power of two changes no rounding, so the scaled
    # distances are the unscaled ones times 2**pow2 EXACTLY; they are divided back before encoding and
    # the record / specification keep the small integer lengths.  Absolute tolerances in the code
    # (np.isclose's default atol = 1e-8) only show at such magnitudes.
    sc = 2.0 ** job["pow2"] if job.get("pow2") else 1.0
    if sc != 1.0:
        L0 = L0 * sc
        A0 = A0 * sc if mode == "len" else A0 / sc
    base = job["fn"].split(":")[0]

    def arg(name):                          # thunk: a fresh argument array for routine `name`
        M = L0 if name == "distance_wei" else A0
        return lambda: rc.as_variant(M, arg_dtype(name, dt, mode), lay)
    for nm in TRAITS:                       # a lossy cast is the harness's fault: MachineryError, not "raised"
        arg(nm)()
    try:
        if job["kind"] in ("dist", "distbig"):
            out = call_distance(base, arg(base), mode, arg("distance_wei"))
        elif job["kind"] == "agree":
            out = [call_distance(nm, arg(nm), mode, arg("distance_wei"))[0] for nm in job["routines"]]
        elif base == "charpath":
            if job["src"] in ("breadthdist", "reachdist"):
                Din = getattr(bct, job["src"])(arg(job["src"])())[1]
            else:
                Din = bct.distance_bin(arg("distance_bin")()) if job["src"] == "distance_bin" else \
                    bct.distance_wei(arg("distance_wei")())[0]
            # options: include_diagonal=False is the statement's "pairs of distinct nodes";
            # include_infinite=False changes the mean only when the matrix HANDED to charpath holds
            # an inf, so it is passed (when the job asks) only for a matrix without one - there
            # both settings denote the same mean and the default-option clause applies
            kw = {}
            if job.get("opt_diag"):
                kw["include_diagonal"] = False
            if job.get("opt_noinf") and not np.isinf(np.asarray(Din, dtype=float)).any():
                kw["include_infinite"] = False
            Dh = rc.as_variant(Din, "float64", job.get("din_layout", "C"))
            out = (Din,) + tuple(bct.charpath(Dh, **kw)[:2])
        elif base == "efficiency_bin":
            Ab = arg("efficiency_bin")
            out = bct.efficiency_bin(Ab()) if not job.get("opt_local_kw") else bct.efficiency_bin(Ab(), local=False)
        elif base == "efficiency_wei":
            A = arg("efficiency_wei")
            out = bct.efficiency_wei(A()) if not job.get("opt_local_kw") else \
                bct.efficiency_wei(A(), local=job["opt_local_kw"])
        elif base == "rout_efficiency":
            out = bct.rout_efficiency(arg("rout_efficiency")(), transform=TRANSFORM[mode])[0]
        else:
            raise KeyError(job["fn"])
    except pool.CallTimeout:
        raise
    except Exception as e:
        rec["raised"] = encode.exc_name(e)
        return rec
    try:
        if job["kind"] in ("dist", "distbig"):
            D, R, B, P = out
            rec["D"] = mat_len(np.asarray(D, dtype=float) / sc, mode)
            if R is not None:
                rec["R"] = encode.mat_int(np.asarray(R).astype(float))
            if B is not None:
                rec["B"] = encode.mat_int(B)
            if P is not None and job["kind"] == "dist":
                rec["P"] = encode.mat_int(np.asarray(P) + 1)
        elif job["kind"] == "agree":
            rec["Ds"] = [mat_len(np.asarray(D, dtype=float) / sc, mode) for D in out]
        elif base == "charpath":
            rec["Din"] = mat_len(out[0], mode)
            rec["lam"] = encode.e_q(out[1])
            rec["eff"] = encode.e_q(out[2])
        else:
            rec["eff"] = e_eff(out, mode)
    except ValueError as e:
        rec["malformed"] = str(e)[:80]
    return rec


# -------------------------------------------------------------------- inputs
# what each routine may be handed for a drawn dtype (rel_common.admissible: bool only to routines
# documented for binary networks; float32 only where the outputs are integer-valued - the binary
# distances and Dijkstra on integer lengths, not floyd (1e-10 tie tolerance) and not the real-
# valued means; uint8 only where the routine copies to float first - floyd / rout_efficiency
# without a transform; distance_bin and reachdist take matrix powers in the argument's dtype)
TRAITS = {"distance_bin": dict(binary=True, structural=True),
          "breadthdist": dict(binary=True, structural=True),
          "reachdist": dict(binary=True, structural=True),
          "distance_wei": dict(structural=True),
          "distance_wei_floyd": dict(), "rout_efficiency": dict(),
          "efficiency_bin": dict(binary=True), "efficiency_wei": dict()}


def arg_dtype(routine, dtype, mode):
    floats_first = routine in ("distance_wei_floyd", "rout_efficiency") and TRANSFORM[mode] is None
    return rc.admissible(dtype, floats_first=floats_first, **TRAITS[routine])


ALGO = {"distance_bin": "algebraic", "breadthdist": "bfs", "reachdist": "reach",
        "distance_wei": "dijkstra", "distance_wei_floyd": "floyd"}
CODES = {"bin": [1], "len": [1, 2, 3], "inv": [1, 2, 4], "log": [0, 1, 2]}


def code_matrix(rng, n, edges, und, mode, loops=0, codes=None):
    codes = codes or CODES[mode]
    K = [[-1] * n for _ in range(n)]
    for (i, j) in edges:
        v = rng.choice(codes)
        K[i][j] = v
        if und:
            K[j][i] = v
    for i in rng.sample(range(n), min(loops, n)):
        K[i][i] = rng.choice(codes)
    return K


def dtype_family(mode, K):
    """which argument dtypes denote the SAME input (module header: encoding of lengths)"""
    if mode == "bin":
        return rc.DT_BIN                    # 0/1 matrix
    if mode == "len":
        return rc.DT_COUNT                  # integer lengths 1..3
    if mode == "inv":
        return rc.DT_FLOAT                  # weights 1, 1/2, 1/4 (floyd and the means: no float32)
    if all(v <= 0 for row in K for v in row):
        return rc.DT_COUNT                  # 'log' of a 0/1 weight matrix (every length 0)
    return rc.DT_FLOAT                      # 'log': -log of a float32 is a float32, not exact in ln 2


def jobs_for(K, mode, src, rng=None, variant=rc.PLAIN):
    """all real calls made for one input.  rng given: option keywords of charpath /
    efficiency_* are drawn (singly and in pairs; all of them denote the default semantics)."""
    def J(fn, kind, **kw):
        base = fn.split(":")[0]
        base = {"charpath": kw.get("src"), "distance_agree": None}.get(base, base)
        # `dtype` = what the job's own routine is handed (failure tags), `draw` = the input's draw
        eff = arg_dtype(base or "reachdist", variant[0], mode) if (base or mode == "bin") else \
            arg_dtype("distance_wei", variant[0], mode)
        return dict(fn=fn, kind=kind, mode=mode, K=K, src_kind=src, dtype=eff, draw=variant[0],
                    layout=variant[1], **kw)

    def opts():
        if rng is None:
            return {}
        return dict(opt_diag=rng.randrange(2), opt_noinf=rng.randrange(2),
                    din_layout=rng.choice(rc.LAYOUTS))
    tr = {"bin": "none", "len": "none", "inv": "inv", "log": "log"}[mode]
    out = []
    if mode == "bin":
        five = ["distance_bin", "breadthdist", "reachdist", "distance_wei", "distance_wei_floyd"]
        for nm in five:
            out.append(J(nm if nm != "distance_wei_floyd" else nm + ":none", "dist", algo=ALGO[nm]))
        out.append(J("distance_agree", "agree", routines=five))
        out.append(J("charpath", "mean", src="distance_bin", **opts()))
        if rng is not None:
            # the distance matrices of the other two binary routines carry the shortest CYCLE length on
            # the diagonal (inf for a node on no cycle): with include_diagonal=False charpath must give
            # the same means over ordered pairs of distinct nodes
            out.append(J("charpath", "mean", src=rng.choice(["breadthdist", "reachdist"]),
                         **dict(opts(), opt_diag=1)))
        out.append(J("efficiency_bin", "mean", opt_local_kw=(rng.choice([0, 0, 1]) if rng else 0)))
        out.append(J("efficiency_wei", "mean", opt_local_kw=(rng.choice([0, 0, "global"]) if rng else 0)))
        out.append(J("rout_efficiency:none", "mean"))
    elif mode in ("len", "inv"):
        out.append(J("distance_wei", "dist", algo="dijkstra"))
        out.append(J("distance_wei_floyd:" + tr, "dist", algo="floyd"))
        out.append(J("distance_agree", "agree", routines=["distance_wei", "distance_wei_floyd"]))
        out.append(J("charpath", "mean", src="distance_wei", **opts()))
        out.append(J("rout_efficiency:" + tr, "mean"))
        if mode == "inv":
            out.append(J("efficiency_wei", "mean", opt_local_kw=(rng.choice([0, 0, "global"]) if rng else 0)))
    else:
        out.append(J("distance_wei_floyd:log", "dist", algo="floyd"))
        out.append(J("rout_efficiency:log", "mean"))
    return out


# ------------------------------------------------ scale-regime inputs (shared with c12)
# Besides "all small inputs" every check visits a handful of inputs from the other regimes of
# SCALE: more nodes than a narrow integer type can index or count (int8: 127, uint8: 255), paths
# of more hops than that, walk counts beyond 2^63 and beyond float32 (3.4e38), path totals beyond
# the exact range of float32 (2^24).  The verdicts stay TLC's (Trace_Distance: Big records).
BIG_KINDS = ("ring+chords", "chain", "clique+path", "grid", "longchain", "diamonds")
# code sets per mode for the big inputs: the tie-rich small set or a single value; and a WIDE set whose
# path totals (up to ~4e8, still < INF and exact in float64) leave the exact range of float32/int16
BIG_CODES = {"bin": [[1]], "len": [[1, 2, 3], [1]], "inv": [[1, 2, 4], [2]]}
WIDE_CODES = {"len": [1, 3, 5, 1048577], "inv": [1, 4, 1048576]}


def big_support(rng, nmin, nmax, und=None, kinds=BIG_KINDS, p_split=0.3, want_pos=False):
    """-> (name, n, connections, und): ring with chords, long chain (few chords), clique with a long
    path attached, grid; optionally cut into two components; directed variants keep every
    connection forwards and add the reverse with probability 1/4 (a directed ring has shortest
    paths of up to n-1 hops); numbering shuffled with probability 0.6."""
    kind = rng.choice(kinds)
    n = rng.randint(nmin, nmax)
    if und is None:
        und = rng.random() < 0.6
    if kind == "ring+chords":
        E = [(i, (i + 1) % n) for i in range(n)]
        E += [tuple(rng.sample(range(n), 2)) for _ in range(rng.randint(3, n // 4))]
    elif kind == "chain":
        E = [(i, i + 1) for i in range(n - 1)]
        E += [tuple(rng.sample(range(n), 2)) for _ in range(rng.choice([0, 0, 2, 5]))]
    elif kind == "longchain":                          # one chain, never cut: shortest paths of n-1 hops
        E = [(i, i + 1) for i in range(n - 1)]
        p_split = 0.0
    elif kind == "clique+path":
        m = rng.randint(8, 24)
        E = [(a, b) for a in range(m) for b in range(a + 1, m)] + [(x, x + 1) for x in range(m - 1, n - 1)]
    elif kind == "diamonds":                           # chain of (n-1)/3 diamonds: 2^k tied shortest paths
        n, E = diamond_chain((n - 1) // 3)
    else:
        a = rng.randint(8, 17)
        b = rng.randint(-(-nmin // a), nmax // a)
        n = a * b
        E = [(r * b + c, r * b + c + 1) for r in range(a) for c in range(b - 1)] + \
            [(r * b + c, (r + 1) * b + c) for r in range(a - 1) for c in range(b)]
    name = kind
    if rng.random() < p_split:
        cut = rng.randint(n // 3, 2 * n // 3)
        E = [(x, y) for x, y in E if (x < cut) == (y < cut)]
        name += "/split"
    perm = list(range(n))
    if rng.random() < 0.6:
        rng.shuffle(perm)
        name += "/shuffled"
    if und:
        E = sorted(set(tuple(sorted((perm[x], perm[y]))) for x, y in E))
    else:
        A = set()
        for x, y in E:
            A.add((perm[x], perm[y]))
            if rng.random() < 0.25:
                A.add((perm[y], perm[x]))
        E = sorted(A)
    if want_pos:                                       # + position of every node in the construction
        pos = [0] * n
        for x in range(n):
            pos[perm[x]] = x
        return name, n, E, und, pos
    return name, n, E, und


def big_inputs(rng, sizes):
    """one big input per size range -> [(name, n, und, mode, codes, K, sources)]; sources = the rows
    / sources whose hop counts and paths are judged: the first and the last node of the numbering
    AND of the construction (the two ends of a chain), plus 3 drawn ones.  Every run visits every
    regime: a quarter of the inputs (at least one) are uncut long chains (hop counts beyond 127), a
    quarter (at least one as plain lengths and one as 'inv' weights) carry the wide code set; which
    size range gets which is drawn."""
    k = len(sizes)
    q = max(1, k // 4)
    kinds = ["longchain"] * q + [None] * (k - q)
    wides = (["len", "inv"] * q)[:max(2, q)] + [None] * (k - max(2, q))     # one per transform branch at least
    rng.shuffle(kinds)
    rng.shuffle(wides)
    out = []
    for (lo, hi), kind, wide in zip(sizes, kinds, wides):
        # wide codes on the long sparse kinds only: there the path totals do leave float32's exact range
        pool_ = (kind,) if kind else (("chain", "ring+chords", "longchain") if wide else BIG_KINDS)
        name, n, edges, und, pos = big_support(rng, lo, hi, kinds=pool_, want_pos=True)
        mode = wide or rng.choice(["len", "len", "inv", "bin"])
        codes = WIDE_CODES[mode] if wide else rng.choice(BIG_CODES[mode])
        sources = sorted(set([0, n - 1, pos.index(0), pos.index(n - 1)] + rng.sample(range(n), 3)))
        out.append((name + ("/wide" if wide else ""), n, und, mode, codes,
                    code_matrix(rng, n, edges, und, mode, codes=codes), sources))
    return out


def diamond_chain(k, width=2):
    """k 'diamonds' in a row: hub - {width parallel nodes} - hub - ... : (width+1)k+1 nodes, width^j equally
    short paths (= shortest walks) between hubs j diamonds apart - exact powers of two for width 2/4, i.e.
    counts that wrap to exactly 0 in int32 (j >= 32/16) and int64 (j >= 64/32) and overflow float32 at 2^128"""
    E, hub = [], 0
    for d in range(k):
        nxt = hub + width + 1
        for x in range(hub + 1, hub + width + 1):
            E += [(hub, x), (x, nxt)]
        hub = nxt
    return hub + 1, E


def clique_path(rng, m, L, joined=True, copies=1):
    """clique of m nodes + path of L nodes (joined by one connection or not), `copies` disjoint
    copies, shuffled numbering -> (n, undirected edge list)"""
    one = [(a, b) for a in range(m) for b in range(a + 1, m)] + [(x, x + 1) for x in range(m, m + L - 1)]
    if joined:
        one.append((0, m))
    n = (m + L) * copies
    perm = list(range(n))
    rng.shuffle(perm)
    E = [(a + c * (m + L), b + c * (m + L)) for c in range(copies) for a, b in one]
    return n, sorted(set(tuple(sorted((perm[a], perm[b]))) for a, b in E))


def big_dtype(rng, mode, codes, floats_first):
    """argument dtype/layout draw for a big input: the integer types that hold every code
    (int8/int16 included where the routine converts to float first), float64 otherwise"""
    if mode == "inv":
        fam = ("float64",)
    elif max(codes) <= 3:
        fam = ("float64", "int64", "int32") + (("int16", "int8", "uint8") if floats_first else ())
    else:
        fam = ("float64", "int64", "int32")
    return rng.choice(fam), rng.choice(rc.LAYOUTS)


MODES = ["bin", "len", "inv", "log"]


def draw_codes(rng, mode):
    """the code set of one input: the full tie-rich set, a single value (every path length is a
    multiple of it: maximal ties), or - 'log' - weight exactly 1 everywhere (all lengths 0)."""
    full = CODES[mode]
    r = rng.random()
    if mode == "bin" or r < 0.6:
        return full
    if r < 0.8:
        return [rng.choice(full)]
    return rng.sample(full, 2)


def build_jobs(ctx):
    rng = random.Random(ctx.seed)
    q = ctx.quick
    jobs = []
    weighted = ["len", "inv", "log"]
    plan = [("dir", 3, None, 3), ("dir", 4, 220 if q else None, 1),
            ("und", 3, None, 3), ("und", 4, None, 2 if q else 3), ("und", 5, 120 if q else None, 1)]
    for kind, n, cap, nw in plan:
        graphs = inputs.model_graphs(ctx, kind, n)
        if cap:
            graphs = inputs.sample(rng, graphs, cap)
        for edges in graphs:
            und = kind == "und"
            jobs += jobs_for(code_matrix(rng, n, edges, und, "bin"), "bin", "model")
            for mode in (weighted if nw >= 3 else rng.sample(weighted, nw)):
                jobs += jobs_for(code_matrix(rng, n, edges, und, mode), mode, "model")
    # self-loops (a nonzero diagonal is still a graph; distances between distinct nodes
    # do not depend on it)
    for edges in inputs.sample(rng, inputs.model_graphs(ctx, "dir", 3), 20 if q else 64):
        jobs += jobs_for(code_matrix(rng, 3, edges, False, "bin", loops=rng.randint(1, 2)), "bin", "model-loops")
        jobs += jobs_for(code_matrix(rng, 3, edges, False, "len", loops=rng.randint(1, 2)), "len", "model-loops")
    # ---- the same model inputs as another dtype / memory layout, with option keywords: a sample
    #      of the inputs above, every call of the input repeated under one drawn variant
    plain_inputs = {}
    for j in jobs:
        plain_inputs.setdefault((j["mode"], str(j["K"])), (j["K"], j["mode"], j["src_kind"]))
    for K, mode, src in inputs.sample(rng, sorted(plain_inputs.values(), key=str), 160 if q else 1500):
        jobs += jobs_for(K, mode, src + "-variant", rng, rc.draw_variant(rng, dtype_family(mode, K)))
    # seeded random larger graphs: sparse/disconnected, isolated nodes, directed and not;
    # every choice (direction, isolation, mode, code set, self-loops, dtype, layout, option
    # keywords) is an independent draw, so all combinations can co-occur
    for k in range(60 if q else 900):
        n = rng.randint(6, 9 if q else 12)
        und = rng.random() < 0.5
        p = rng.choice([0.12, 0.2, 0.35])
        edges = [(i, j) for i in range(n) for j in range(n)
                 if (i < j if und else i != j) and rng.random() < p]
        if rng.random() < 0.25 and n > 2:              # isolate a node
            z = rng.randrange(n)
            edges = [e for e in edges if z not in e]
        mode = rng.choice(MODES)
        K = code_matrix(rng, n, edges, und, mode, loops=rng.choice([0, 0, 0, 1, 2]), codes=draw_codes(rng, mode))
        jobs += jobs_for(K, mode, "random", rng, rc.draw_variant(rng, dtype_family(mode, K), p_plain=0.3))
    # structured families (rel_common.structured_support): long paths and cycles, stars, complete
    # and complete bipartite graphs, caterpillars, rings of cliques, components of equal and of
    # different sizes, isolated nodes - undirected and randomly oriented
    for k in range(70 if q else 900):
        name, n, edges = rc.structured_support(rng, 5, 9 if q else 12)
        und = rng.random() < 0.5
        if not und:
            edges = rc.orient(rng, edges)
        mode = rng.choice(MODES)
        K = code_matrix(rng, n, edges, und, mode, loops=rng.choice([0, 0, 0, 1]), codes=draw_codes(rng, mode))
        jobs += jobs_for(K, mode, "struct-" + name, rng, rc.draw_variant(rng, dtype_family(mode, K), p_plain=0.3))
    # ---- mid-size dense inputs with few weight values (20..40 nodes, density 0.5..1, a hub in half of
    #      them): from one source many nodes are EXACTLY equally far - tie groups of 10..30 nodes - and
    #      reach common neighbours through different weights (small graphs have tie groups of 2..4)
    for k in range(8 if q else 40):
        n = rng.randint(20, 40)
        und = rng.random() < 0.6
        p = rng.choice([0.5, 0.7, 0.9, 1.0])
        edges = [(i, j) for i in range(n) for j in range(n) if (i < j if und else i != j) and rng.random() < p]
        if rng.random() < 0.5:           # a hub at a random number, joined to everybody
            hub = rng.randrange(n)
            edges = sorted(set(edges) | set((min(hub, j), max(hub, j)) if und else (hub, j)
                                            for j in range(n) if j != hub))
        # most of them as weights with the full value set (1, 1/2, 1/4: every routine incl. efficiency_wei)
        mode = "inv" if k % 8 < 5 else rng.choice(["len", "inv"])
        K = code_matrix(rng, n, edges, und, mode, codes=None if k % 8 < 5 else draw_codes(rng, mode))
        jobs += [dict(j, big=1) for j in jobs_for(K, mode, "dense-ties", rng)]
    # ---- scale regime 1: a dense part next to a long sparse part (clique of 12..30 + path of 36..80
    #      nodes, joined or as two components, or two disjoint copies; shuffled numbering; 50..110
    #      nodes): walk counts explode in the clique (beyond 2^63 and beyond float32's 3.4e38, still
    #      far below float64's 1.8e308 - beyond that, from about clique 60 + path 180, the walk counts of
    #      distance_bin / reachdist / efficiency_bin themselves overflow) while the path keeps the power
    #      iterations going - the stress case for counting / matrix-power implementations (all ten calls).
    #      Judged with the BFS-by-levels oracle (Trace_Distance!DistOf, mc: FastOracleInv).
    joins = [True, False] * (1 if q else 5)           # both kinds in every run, order from the RNG
    rng.shuffle(joins)
    for k in range(2 if q else 10):
        while True:
            m, L = rng.randint(12, 30), rng.randint(36, 80)
            copies = 2 if rng.random() < 0.25 else 1
            if (m + L) * copies <= 110:
                break
        n, edges = clique_path(rng, m, L, joined=joins[k], copies=copies)
        K = code_matrix(rng, n, edges, True, "bin")
        jobs += [dict(j, big=1) for j in jobs_for(K, "bin", "clique+path", rng)]
    # ---- scale regime 1b: chains of k diamonds (hub - 2 or 4 parallel nodes - hub ...): between hubs j diamonds
    #      apart there are exactly 2^j (4^j) shortest walks - counts that wrap to exactly 0 in int32 and int64
    #      for j >= 32 / 64 and overflow float32 at 2^128, on a sparse graph (binary distances, all ten calls)
    for k, width in ([(rng.randint(66, 75), 2)] if q else [(rng.randint(20, 30), 2), (rng.randint(36, 48), 2),
                                                            (rng.randint(66, 75), 2), (rng.randint(33, 40), 4),
                                                            (rng.randint(128, 132), 2)]):
        n, edges = diamond_chain(k, width)
        perm = list(range(n))
        if rng.random() < 0.5:
            rng.shuffle(perm)
        edges = sorted(set(tuple(sorted((perm[a], perm[b]))) for a, b in edges))
        # quick tier: the routines that count walks, their consumers and the five-routine comparison
        keep = ("distance_bin", "reachdist", "distance_agree", "charpath", "efficiency_bin")
        Kd = code_matrix(rng, n, edges, True, "bin")
        jobs += [dict(j, big=1) for j in jobs_for(Kd, "bin", "diamonds", rng) if not q or j["fn"] in keep]
        # the same chain as an integer / single-precision argument (the counts used to be held in the
        # argument's own type: /repo fix e86d152)
        for dt in (["int32", rng.choice(["int64", "uint8", "float32", "bool"])] if q else
                   ["int32", "int64", "uint8", "float32", "bool"]):
            jobs += [dict(j, big=1) for j in jobs_for(Kd, "bin", "diamonds-" + dt, rng,
                                                      (dt, rng.choice(rc.LAYOUTS)))
                     if j["fn"] in ("distance_bin", "reachdist", "efficiency_bin", "distance_agree")]
    # ---- scale regime 1c: clique of 58..64 + path of 176..190 nodes: walk counts beyond float64's
    #      1.8e308 (inf, then inf * 0 = nan, which is "nonzero"; /repo fix e86d152)
    for k in range(1 if q else 3):
        n, edges = clique_path(rng, rng.randint(58, 64), rng.randint(176, 190), joined=True, copies=1)
        keep = ("distance_bin", "reachdist", "efficiency_bin") if q else \
            ("distance_bin", "reachdist", "efficiency_bin", "distance_agree", "charpath")
        jobs += [dict(j, big=1) for j in jobs_for(code_matrix(rng, n, edges, True, "bin"), "bin",
                                                  "clique+path-1e308", rng) if j["fn"] in keep]
    # ---- scale regime 2: 130..300 (thorough: ..400) nodes - more than an int8 / uint8 index or hop
    #      counter holds -, rings with chords, long chains, clique + path, grids, cut into two components
    #      or not, directed or not; lengths {1,2,3}, one value, or a wide set whose path totals leave
    #      the exact range of float32; 'inv' weights down to 2^-20.  distance_wei and distance_wei_floyd,
    #      judged row by row by the one-pass equation that only the true distance row solves
    #      (Distance!IsDistRow; hop counts for a drawn sample of sources: Distance!MinHopsRow).
    for name, n, und, mode, codes, K, rows in big_inputs(rng, [(130, 200), (201, 256), (257, 300)] if q else
                                                         [(130, 160), (161, 256), (257, 300), (301, 400)] * 2):
        for fn in ("distance_wei", "distance_wei_floyd"):
            floyd = fn == "distance_wei_floyd"
            dt, lay = big_dtype(rng, mode, codes, floyd and TRANSFORM[mode] is None)
            jobs.append(dict(fn=fn + (":" + {"bin": "none", "len": "none", "inv": "inv"}[mode] if floyd else ""),
                             kind="distbig", algo=ALGO[fn], mode=mode, K=K, src_kind="big-" + name, rows=rows,
                             dtype=arg_dtype(fn, dt, mode), draw=dt, layout=lay, big=1))
    # ---- magnitude family: a sample of the weighted small / random / structured / dense-ties inputs
    #      again with every length scaled by 2**-27 .. 2**-40 (see exec_job)
    cand = [j for j in jobs if j["kind"] in ("dist", "agree") and j["mode"] in ("len", "inv")
            and j.get("draw", "float64") == "float64" and j.get("layout", "C") == "C"
            and not j["src_kind"].startswith("scale") and len(j["K"]) <= 40]
    for j in inputs.sample(rng, cand, 150 if q else 1500):
        jobs.append(dict(j, pow2=-rng.choice([27, 30, 34, 40]), src_kind=j["src_kind"] + "-tiny"))
    return jobs


# ----------------------------------------------------------------------- run
def what(job, rec, clause):
    opt = {k: job[k] for k in ("opt_diag", "opt_noinf", "din_layout", "opt_local_kw") if job.get(k)}
    return "mode=%s n=%d source=%s dtype=%s layout=%s%s" % (
        job["mode"], len(job["K"]), job.get("src_kind"), job.get("dtype", "float64"), job.get("layout", "C"),
        " options=%s" % opt if opt else "")


def run_all(jobs, modname=__name__):
    """the real calls; scale-regime jobs (50..400 nodes) get a longer per-call limit"""
    small = [k for k, j in enumerate(jobs) if not j.get("big")]
    big = [k for k, j in enumerate(jobs) if j.get("big")]
    recs = [None] * len(jobs)
    for idx, limit in ((small, 20.0), (big, 240.0)):
        if idx:
            for k, r in zip(idx, pool.run_jobs(modname, [jobs[k] for k in idx], limit=limit, reuse=True, abort=(limit < 100), strict_fp=True)):
                recs[k] = r
    return recs


def validate_split(ctx, jobs, recs):
    """the scale-regime records (50..400-node matrices, some with several n x n outputs) in batches of
    their own: a 4000-record batch of them is a 200 MB JSON file, which TLC's Json module cannot read"""
    small = [k for k, j in enumerate(jobs) if not j.get("big")]
    big = [k for k, j in enumerate(jobs) if j.get("big")]
    verdicts = [None] * len(jobs)
    for k, v in zip(small, ctx.validate(TLA, CFG, [recs[k] for k in small])):
        verdicts[k] = v
    # (every TLC worker deserialises the batch for itself: 120 records of 240 nodes each are 60 MB of JSON
    #  and more than the 8 GB heap once 16 workers hold them as TLA+ values)
    mid = [k for k in big if recs[k].get("n", 0) <= 100]
    huge = [k for k in big if recs[k].get("n", 0) > 100]
    for part, tag, chunk in ((mid, "Trace_Distance_big", 120), (huge, "Trace_Distance_huge", 10)):
        if part:
            for k, v in zip(part, ctx.validate(TLA, CFG, [recs[k] for k in part], tag=tag, chunk=chunk)):
                verdicts[k] = v
    return verdicts


def run(ctx):
    ctx.mc("MC_Distance.tla", "MC_Distance_c03.cfg" if ctx.quick else "MC_Distance_c03_thorough.cfg")
    jobs = build_jobs(ctx)
    recs = run_all(jobs)
    verdicts = validate_split(ctx, jobs, recs)
    ctx.judge(jobs, rc.tag_failures(ctx, jobs, recs, verdicts), verdicts, what)
    ctx.extra["argument_variants"] = rc.variant_counts(jobs)
    ctx.extra["scale_regime_records"] = sum(1 for j in jobs if j.get("big"))
    seen = set()
    for j, r in zip(jobs, recs):
        if r.get("kind") == "dist" and not r.get("raised") and not r.get("malformed"):
            hop = r["B"] if r["B"] else (r["D"] if j["mode"] == "bin" else [])
            if any(2 <= v < encode.INF for row in hop for v in row):
                seen.add((j["mode"], str(j["K"])))
    ctx.nontrivial = len(seen)
    ctx.exhaustive = True
    ctx.rule = ("every digraph on 3 nodes and every graph on 3..4 nodes (TLC-enumerated), %s, each as 0/1 "
                "matrix and with tie-rich lengths {1,2,3} / dyadic weights {1,1/2,1/4} under 'inv' and under 'log'; "
                "self-loop variants; a sample of these inputs again as another argument dtype (bool/uint8/int32/"
                "int64/float32 where the values allow it) and memory layout (Fortran, transposed view, window or "
                "strided view of a larger array) with option keywords of charpath/efficiency_* drawn singly and in "
                "pairs; seeded random graphs n in 6..%d (sparse, disconnected, isolated nodes, self-loops, single-"
                "value code sets, directed and undirected) and structured families (paths, cycles, stars, complete, "
                "complete bipartite, caterpillars, rings of cliques, equal/unequal components, isolated nodes; also "
                "randomly oriented), all choices drawn independently from the seeded RNG; scale regime: %d clique + "
                "path inputs of 50..110 nodes (walk counts beyond 2^63 and 3.4e38; all ten calls) and %d inputs of "
                "130..%d nodes (rings with chords, chains, clique + path, grids; lengths up to 2^20; distance_wei and "
                "distance_wei_floyd); one record per real call; "
                "non-trivial = distinct (input, mode) whose observed shortest paths include one of >= 2 edges"
                % ("220 sampled digraphs on 4 nodes, 120 sampled graphs on 5 nodes" if ctx.quick
                   else "every digraph on 4 nodes, every graph on 5 nodes", 9 if ctx.quick else 12,
                   len(set(str(j["K"]) for j in jobs if j.get("big") and j["kind"] != "distbig")),
                   len(set(str(j["K"]) for j in jobs if j["kind"] == "distbig")), 300 if ctx.quick else 400))
    for kind in ("dist", "mean", "agree"):
        for j, r in zip(jobs, recs):
            if j["kind"] == kind and j["mode"] != "bin" and len(j["K"]) == 4:
                ctx.add_sample("model-input:" + j["fn"], dict(job=j, record=r))
                break
    last = max(k for k, j in enumerate(jobs) if not j.get("big"))
    ctx.add_sample("random-input", dict(job=jobs[last], record=recs[last]))
    for j, r in zip(jobs, recs):
        if j.get("big"):                                # matrices of 50..400 nodes: sizes only
            ctx.add_sample("scale-regime-input", dict(fn=j["fn"], kind=j["kind"], n=r.get("n"), mode=j["mode"],
                                                      source=j.get("src_kind"), dtype=j.get("dtype"),
                                                      layout=j.get("layout")), limit=12)
    ctx.assumptions += [
        "TLC evaluates the L0 definitions (Dist by min-plus fixpoint, cross-checked against enumerated simple "
        "paths on all small inputs) correctly",
        "lengths are small integers in exact units (weights dyadic for 'inv'/'log'; 'log' outputs divided by ln 2 "
        "and required to be integral within 1e-9); means are compared as exact fractions against round(x*1e6)",
        "charpath is judged on the matrix it was handed, under the default semantics (pairs of distinct nodes, "
        "infinite distances included); include_diagonal=False / include_infinite=False are passed only where they "
        "denote that same mean (the latter only for a matrix without inf); efficiency_*(local=False/'global') likewise",
        "argument dtype/layout variants carry the same mathematical values (lossless cast checked by the harness); "
        "a boolean array is given only to the routines documented for binary networks, the weight/length routines "
        "get uint8 instead; 'log' inputs stay float64 unless every weight is 1",
        "only ordered pairs of distinct nodes are judged (diagonals of breadthdist/reachdist are cycle lengths)",
        "weights/lengths of the model graphs are chosen by the harness RNG (VERIF_SEED)",
        "records of more than 20 nodes are judged with cheaper equivalents of the L0 definitions, each cross-checked "
        "against them by mc on every small input (DistanceImpl!FastOracleInv): hop distances by breadth-first levels, "
        "the one-pass equation that only the true distance row solves (lengths >= 1), hop-count sets by increasing "
        "distance (for the first/last node of the numbering and of the construction and 3 drawn sources), the mean "
        "inverse to 10^-9; no drift prediction for them"]
    return ctx.finish()


def replay(ctx, rp):
    job = rp["job"]
    recs = run_all([job])
    verdicts = ctx.validate(TLA, CFG, recs)
    core.log("replay verdict:", verdicts[0])
    if job.get("big"):                                  # 50..400 nodes: the matrices stay in the replay file
        core.log("  input:", what(job, recs[0], verdicts[0][0]))
        core.log("  observed:", {k: recs[0][k] for k in ("lam", "eff", "raised", "malformed") if recs[0].get(k) not in ("", -1)})
        ctx.judge([job], recs, verdicts, what)
        return ctx.finish()
    core.log("  input code matrix K (-1 = no connection, mode %s): %s" % (job["mode"], job["K"]))
    core.log("  observed:", {k: recs[0][k] for k in ("D", "R", "B", "Ds", "Din", "lam", "eff", "raised", "malformed")
                             if recs[0].get(k) not in ([], "", -1)})
    ctx.judge([job], recs, verdicts, what)
    return ctx.finish()
