"""C03 - shortest-path distance matrices equal true minimum path lengths.

mc:       spec/DistanceImpl.tla - the Dijkstra loop of distance_wei, the Floyd-Warshall
          loop of distance_wei_floyd, the algebraic loop of distance_bin, the BFS of
          breadth/breadthdist and the boolean powers of reachdist as machines; TLC proves
          on every small input that each terminates with D = Dist (two independent L0
          definitions), hops in MinHops, R <=> finite (spec/MC_Distance_c03*.cfg).
gen/run:  the five routines, charpath, efficiency_bin, efficiency_wei (global),
          rout_efficiency on every TLC-enumerated digraph n<=3(4) / graph n<=4(5) with
          tie-rich lengths, each transform, self-loops, and seeded random graphs n<=12.
validate: spec/Trace_Distance.tla judges every record (one record per real call).

Python only calls bctpy and encodes numbers.  Encoding of lengths (exact):
  mode bin : 0/1 matrix, length 1 per connection
  mode len : integer lengths from {1,2,3}
  mode inv : weights {1,1/2,1/4} -> lengths {1,2,4}
  mode log : weights 2^-k, k in {0,1,2} -> lengths k (units of ln 2; observed values are
             divided by ln 2 and must then be integral up to 1e-9)
"""
import math
import random

import numpy as np

from .. import core, encode, inputs, pool

LN2 = math.log(2.0)
TLA, CFG = "Trace_Distance.tla", "Trace_Distance.cfg"
TRANSFORM = {"bin": None, "len": None, "inv": "inv", "log": "log"}


# ----------------------------------------------------------------- encoding
def lm_of(K):
    """length matrix for TLC from the integer code matrix K (-1 = no connection)."""
    return [[encode.INF if v < 0 else int(v) for v in row] for row in K]


def input_of(K, mode):
    """the float matrix handed to bctpy, built from the integer code matrix K."""
    K = np.array(K, dtype=float)
    A = np.zeros_like(K)
    m = K >= 0
    if mode in ("bin", "len"):
        A[m] = K[m]
    elif mode == "inv":
        A[m] = 1.0 / K[m]
    elif mode == "log":
        A[m] = 2.0 ** (-K[m])
    return A


def e_len(x, mode):
    """observed path length -> exact int in the units of Lm (ValueError if not integral)."""
    x = float(x)
    if mode == "log" and np.isfinite(x):
        y = x / LN2
        if abs(y - round(y)) > 1e-9:
            raise ValueError("length is not a multiple of ln 2: %r" % x)
        return int(round(y))
    return encode.e_int(x)


def mat_len(D, mode):
    return [[e_len(v, mode) for v in row] for row in np.asarray(D)]


def e_eff(x, mode):
    return encode.e_q(float(x) * LN2 if mode == "log" else float(x))


# ------------------------------------------------------------------ one call
def base_record(job):
    return dict(fn=job["fn"], kind=job["kind"], algo=job.get("algo", ""), mode=job["mode"],
                n=len(job["K"]), Lm=lm_of(job["K"]), raised="", malformed="",
                D=[], R=[], B=[], P=[], Ds=[], Din=[], lam=-1, eff=-1,
                diag0=1 if job["fn"].startswith("distance_") else 0)


def call_distance(name, A, mode, L=None):
    """-> (D, R or None, B or None, P or None) of one distance routine."""
    import bct
    if name == "distance_bin":
        return bct.distance_bin(A.copy()), None, None, None
    if name == "breadthdist":
        R, D = bct.breadthdist(A.copy())
        return D, R, None, None
    if name == "reachdist":
        R, D = bct.reachdist(A.copy())
        return D, R, None, None
    if name == "distance_wei":
        D, B = bct.distance_wei(L.copy())
        return D, None, B, None
    if name == "distance_wei_floyd":
        D, B, P = bct.distance_wei_floyd(A.copy(), transform=TRANSFORM[mode])
        return D, None, B, P
    raise KeyError(name)


def exec_job(job):
    import bct
    rec = base_record(job)
    mode = job["mode"]
    A = input_of(job["K"], mode)
    L = input_of(job["K"], "len")          # the same lengths as a plain length matrix
    L[L < 0] = 0
    base = job["fn"].split(":")[0]
    try:
        if job["kind"] == "dist":
            out = call_distance(base, A, mode, L)
        elif job["kind"] == "agree":
            out = [call_distance(nm, A, mode, L)[0] for nm in job["routines"]]
        elif base == "charpath":
            Din = bct.distance_bin(A.copy()) if job["src"] == "distance_bin" else bct.distance_wei(L.copy())[0]
            out = (Din,) + tuple(bct.charpath(Din.copy())[:2])
        elif base == "efficiency_bin":
            out = bct.efficiency_bin(A.copy())
        elif base == "efficiency_wei":
            out = bct.efficiency_wei(A.copy())
        elif base == "rout_efficiency":
            out = bct.rout_efficiency(A.copy(), transform=TRANSFORM[mode])[0]
        else:
            raise KeyError(job["fn"])
    except pool.CallTimeout:
        raise
    except Exception as e:
        rec["raised"] = encode.exc_name(e)
        return rec
    try:
        if job["kind"] == "dist":
            D, R, B, P = out
            rec["D"] = mat_len(D, mode)
            if R is not None:
                rec["R"] = encode.mat_int(np.asarray(R).astype(float))
            if B is not None:
                rec["B"] = encode.mat_int(B)
            if P is not None:
                rec["P"] = encode.mat_int(np.asarray(P) + 1)
        elif job["kind"] == "agree":
            rec["Ds"] = [mat_len(D, mode) for D in out]
        elif base == "charpath":
            rec["Din"] = mat_len(out[0], mode)
            rec["lam"] = encode.e_q(out[1])
            rec["eff"] = encode.e_q(out[2])
        else:
            rec["eff"] = e_eff(out, mode)
    except ValueError as e:
        rec["malformed"] = str(e)[:80]
    return rec


# -------------------------------------------------------------------- inputs
ALGO = {"distance_bin": "algebraic", "breadthdist": "bfs", "reachdist": "reach",
        "distance_wei": "dijkstra", "distance_wei_floyd": "floyd"}
CODES = {"bin": [1], "len": [1, 2, 3], "inv": [1, 2, 4], "log": [0, 1, 2]}


def code_matrix(rng, n, edges, und, mode, loops=0):
    K = [[-1] * n for _ in range(n)]
    for (i, j) in edges:
        v = rng.choice(CODES[mode])
        K[i][j] = v
        if und:
            K[j][i] = v
    for i in rng.sample(range(n), min(loops, n)):
        K[i][i] = rng.choice(CODES[mode])
    return K


def jobs_for(K, mode, src):
    """all real calls made for one input."""
    def J(fn, kind, **kw):
        return dict(fn=fn, kind=kind, mode=mode, K=K, src_kind=src, **kw)
    tr = {"bin": "none", "len": "none", "inv": "inv", "log": "log"}[mode]
    out = []
    if mode == "bin":
        five = ["distance_bin", "breadthdist", "reachdist", "distance_wei", "distance_wei_floyd"]
        for nm in five:
            out.append(J(nm if nm != "distance_wei_floyd" else nm + ":none", "dist", algo=ALGO[nm]))
        out.append(J("distance_agree", "agree", routines=five))
        out.append(J("charpath", "mean", src="distance_bin"))
        out.append(J("efficiency_bin", "mean"))
        out.append(J("efficiency_wei", "mean"))
        out.append(J("rout_efficiency:none", "mean"))
    elif mode in ("len", "inv"):
        out.append(J("distance_wei", "dist", algo="dijkstra"))
        out.append(J("distance_wei_floyd:" + tr, "dist", algo="floyd"))
        out.append(J("distance_agree", "agree", routines=["distance_wei", "distance_wei_floyd"]))
        out.append(J("charpath", "mean", src="distance_wei"))
        out.append(J("rout_efficiency:" + tr, "mean"))
        if mode == "inv":
            out.append(J("efficiency_wei", "mean"))
    else:
        out.append(J("distance_wei_floyd:log", "dist", algo="floyd"))
        out.append(J("rout_efficiency:log", "mean"))
    return out


def build_jobs(ctx):
    rng = random.Random(ctx.seed)
    q = ctx.quick
    jobs = []
    weighted = ["len", "inv", "log"]
    plan = [("dir", 3, None, 3), ("dir", 4, 220 if q else None, 1),
            ("und", 3, None, 3), ("und", 4, None, 2 if q else 3), ("und", 5, 120 if q else None, 1)]
    c = 0
    for kind, n, cap, nw in plan:
        graphs = inputs.model_graphs(ctx, kind, n)
        if cap:
            graphs = inputs.sample(rng, graphs, cap)
        for edges in graphs:
            und = kind == "und"
            jobs += jobs_for(code_matrix(rng, n, edges, und, "bin"), "bin", "model")
            for _ in range(nw):
                mode = weighted[c % 3]
                c += 1
                jobs += jobs_for(code_matrix(rng, n, edges, und, mode), mode, "model")
    # self-loops (a nonzero diagonal is still a graph; distances between distinct nodes
    # do not depend on it)
    for edges in inputs.sample(rng, inputs.model_graphs(ctx, "dir", 3), 20 if q else 64):
        jobs += jobs_for(code_matrix(rng, 3, edges, False, "bin", loops=rng.randint(1, 2)), "bin", "model-loops")
        jobs += jobs_for(code_matrix(rng, 3, edges, False, "len", loops=rng.randint(1, 2)), "len", "model-loops")
    # seeded random larger graphs: sparse/disconnected, isolated nodes, directed and not
    for k in range(60 if q else 900):
        n = rng.randint(6, 9 if q else 12)
        und = k % 2 == 0
        p = rng.choice([0.12, 0.2, 0.35])
        edges = [(i, j) for i in range(n) for j in range(n)
                 if (i < j if und else i != j) and rng.random() < p]
        if k % 5 == 0 and n > 2:                       # isolate a node
            z = rng.randrange(n)
            edges = [e for e in edges if z not in e]
        mode = ["bin", "len", "inv", "log"][k % 4]
        jobs += jobs_for(code_matrix(rng, n, edges, und, mode), mode, "random")
    return jobs


# ----------------------------------------------------------------------- run
def what(job, rec, clause):
    return "mode=%s n=%d source=%s" % (job["mode"], len(job["K"]), job.get("src_kind"))


def run(ctx):
    ctx.mc("MC_Distance.tla", "MC_Distance_c03.cfg" if ctx.quick else "MC_Distance_c03_thorough.cfg")
    jobs = build_jobs(ctx)
    recs = pool.run_jobs(__name__, jobs)
    verdicts = ctx.validate(TLA, CFG, recs)
    ctx.judge(jobs, recs, verdicts, what)
    seen = set()
    for j, r in zip(jobs, recs):
        if r.get("kind") == "dist" and not r.get("raised") and not r.get("malformed"):
            hop = r["B"] if r["B"] else (r["D"] if j["mode"] == "bin" else [])
            if any(2 <= v < encode.INF for row in hop for v in row):
                seen.add((j["mode"], str(j["K"])))
    ctx.nontrivial = len(seen)
    ctx.exhaustive = True
    ctx.rule = ("every digraph on 3 nodes and every graph on 3..4 nodes (TLC-enumerated), %s, each as 0/1 "
                "matrix and with tie-rich lengths {1,2,3} / dyadic weights {1,1/2,1/4} under 'inv' and under 'log'; "
                "self-loop variants; seeded random graphs n in 6..%d (sparse, disconnected, isolated nodes, "
                "directed and undirected); one record per real call; non-trivial = distinct (input, mode) whose "
                "observed shortest paths include one of >= 2 edges"
                % ("220 sampled digraphs on 4 nodes, 120 sampled graphs on 5 nodes" if ctx.quick
                   else "every digraph on 4 nodes, every graph on 5 nodes", 9 if ctx.quick else 12))
    for kind in ("dist", "mean", "agree"):
        for j, r in zip(jobs, recs):
            if j["kind"] == kind and j["mode"] != "bin" and len(j["K"]) == 4:
                ctx.add_sample("model-input:" + j["fn"], dict(job=j, record=r))
                break
    ctx.add_sample("random-input", dict(job=jobs[-1], record=recs[-1]))
    ctx.assumptions += [
        "TLC evaluates the L0 definitions (Dist by min-plus fixpoint, cross-checked against enumerated simple "
        "paths on all small inputs) correctly",
        "lengths are small integers in exact units (weights dyadic for 'inv'/'log'; 'log' outputs divided by ln 2 "
        "and required to be integral within 1e-9); means are compared as exact fractions against round(x*1e6)",
        "charpath is called with its default options and judged on the matrix it was handed",
        "only ordered pairs of distinct nodes are judged (diagonals of breadthdist/reachdist are cycle lengths)",
        "weights/lengths of the model graphs are chosen by the harness RNG (VERIF_SEED)"]
    return ctx.finish()


def replay(ctx, rp):
    job = rp["job"]
    recs = pool.run_jobs(__name__, [job])
    verdicts = ctx.validate(TLA, CFG, recs)
    core.log("replay verdict:", verdicts[0])
    core.log("  input code matrix K (-1 = no connection, mode %s): %s" % (job["mode"], job["K"]))
    core.log("  observed:", {k: recs[0][k] for k in ("D", "R", "B", "Ds", "Din", "lam", "eff", "raised", "malformed")
                             if recs[0].get(k) not in ([], "", -1)})
    ctx.judge([job], recs, verdicts, what)
    return ctx.finish()
