"""C05 - seeded calls are reproducible and never touch the global random stream.

mc:       spec/RngDiscipline.tla (L1 machine: caller programs SeedGlobal / ForeignDraw /
          CallSeeded / CallUnseeded over an abstract library).  MC_RngDiscipline_good_*: the
          well-behaved abstract library satisfies every clause, the action properties
          [][CallSeeded => g'=g /\ py'=py], [][py'=py] and refines the step relation Allowed;
          MC_RngDiscipline_matrix_*: eight abstract misbehaving libraries break exactly the
          clauses they should (POSTCONDITION on the violation matrix TLC observed).
gen/run:  the caller programs enumerated by TLC ARE the test programs: every renaming-canonical
          program of length 3 that ends in a call, every program of length <= 5 whose last call
          ReseedReproduces relates to an earlier one, TLC -simulate samples of length 5 (thorough:
          also samples of the 20060 canonical programs of length 4).  Each one is executed against
          every seed-accepting public routine of bctpy (function token 1 = the routine, token 2 =
          a partner routine, argument tokens = two small valid inputs, seed tokens = two concrete
          seeds); numpy's global generator state, python's random state and the results are
          fingerprinted around every step.  One extra history per routine passes a RecordingRNG
          (evidence: which draws happen on the private stream).
validate: spec/Trace_RngDiscipline.tla steps every recorded history through the step relation
          Allowed of RngDiscipline, one state per event, and names the failing clause and the
          function token whose call broke it.
Python never compares results: it fingerprints (SHA-1) and interns fingerprints as small ints.
Developer switches (never used by MANIFEST): VERIF_C05_ONLY=fn1,fn2 restricts the routines.
"""
import hashlib
import importlib
import inspect
import os
import random
import re
import threading

import numpy as np

from .. import core, pool
from ..rng import RecordingRNG

TRACE = ("Trace_RngDiscipline.tla", "Trace_RngDiscipline.cfg")
CLAUSES = ["GlobalUntouchedWhenSeeded", "PyRandomUntouched", "SameSeedSameResult",
           "IntSeedEqualsRandomState", "UnseededIsFunctionOfGlobalState", "ReseedReproduces"]

# ------------------------------------------------------------------ small valid inputs
_INPUTS = None


def _und(n, p, seed, wmax=1, signed=False, ring=True):
    r = np.random.RandomState(seed)          # private stream: never the global one
    A = np.zeros((n, n))
    for i in range(n):
        for j in range(i + 1, n):
            if r.random_sample() < p or (ring and (j == i + 1 or (i == 0 and j == n - 1))):
                v = float(r.randint(1, wmax + 1))
                if signed and r.random_sample() < 0.4:
                    v = -v
                A[i, j] = A[j, i] = v
    return A


def _dir(n, p, seed, wmax=1, signed=False, ring=True):
    r = np.random.RandomState(seed)
    A = np.zeros((n, n))
    for i in range(n):
        for j in range(n):
            if i != j and (r.random_sample() < p or (ring and j == (i + 1) % n)):
                v = float(r.randint(1, wmax + 1))
                if signed and r.random_sample() < 0.4:
                    v = -v
                A[i, j] = v
    return A


def _full_signed(n, seed, und):
    r = np.random.RandomState(seed)
    W = np.round(r.uniform(-1, 1, size=(n, n)), 2)
    W[np.abs(W) < 0.25] = 0
    if und:
        W = np.triu(W, 1)
        W = W + W.T
    np.fill_diagonal(W, 0)
    return W


def _inputs():
    """name -> (module, [args of input 1, args of input 2], [kwargs 1, kwargs 2])"""
    global _INPUTS
    if _INPUTS is not None:
        return _INPUTS
    U10, U9 = _und(10, 0.25, 1), _und(9, 0.3, 2)
    Uw10, Uw9 = _und(10, 0.3, 3, wmax=4), _und(9, 0.35, 4, wmax=3)
    D8, D9 = _dir(8, 0.2, 5), _dir(9, 0.2, 6)
    Dw8, Dw9 = _dir(8, 0.25, 7, wmax=4), _dir(9, 0.2, 8, wmax=3)
    Su8, Su9 = _und(8, 0.5, 9, wmax=3, signed=True), _und(9, 0.45, 10, wmax=3, signed=True)
    Sd8, Sd9 = _dir(8, 0.4, 11, wmax=3, signed=True), _dir(9, 0.35, 12, wmax=3, signed=True)
    Fu8, Fu9 = _full_signed(8, 13, True), _full_signed(9, 14, True)
    Fd8, Fd9 = _full_signed(8, 15, False), _full_signed(9, 16, False)
    B10 = np.zeros((10, 10)); B10[0, 5] = B10[5, 0] = 1; B10[2, 7] = B10[7, 2] = 1
    B9 = np.zeros((9, 9)); B9[1, 4] = B9[4, 1] = 1
    r = np.random.RandomState(17)
    xyz12, xyz11 = r.uniform(0, 10, size=(12, 3)), r.uniform(0, 10, size=(11, 3))
    U12, U11 = _und(12, 0.3, 18), _und(11, 0.3, 19)
    # agreement matrices (probabilities) with ambiguous structure
    P10 = np.round(np.abs(_full_signed(10, 20, True)), 2)
    P9 = np.round(np.abs(_full_signed(9, 21, True)), 2)
    # nbs: a group difference on a few edges plus noise
    def nbs_data(n, nx, ny, seed):
        rr = np.random.RandomState(seed)
        x = rr.normal(size=(n, n, nx)); y = rr.normal(size=(n, n, ny))
        for (i, j) in [(0, 1), (1, 2), (2, 3), (0, 3)]:
            y[i, j, :] += 3
        x = x + x.transpose(1, 0, 2); y = y + y.transpose(1, 0, 2)
        return x, y
    x6, y6 = nbs_data(6, 5, 5, 22)
    x7, y7 = nbs_data(7, 4, 6, 23)
    # generative models: seed network, distances
    def gm(n, seed):
        rr = np.random.RandomState(seed)
        xyz = rr.uniform(0, 10, size=(n, 3))
        D = np.sqrt(((xyz[:, None, :] - xyz[None, :, :]) ** 2).sum(-1))
        A = np.zeros((n, n)); A[0, 1] = A[1, 0] = 1; A[2, 3] = A[3, 2] = 1
        return A, D
    A8, Dm8 = gm(8, 24)
    A9, Dm9 = gm(9, 25)
    T8, T9 = _und(8, 0.3, 26), _und(9, 0.3, 27)
    eta, gam = np.array([-1.5]), np.array([0.4])
    # tie-rich rings: the random tie-breaks / sweep orders change the result
    def ring(n, k, und):
        A = np.zeros((n, n))
        for i in range(n):
            for d in range(1, k + 1):
                A[i, (i + d) % n] = 1
                if und:
                    A[(i + d) % n, i] = 1
        return A
    C8, C92, R8 = ring(8, 1, True), ring(9, 2, True), ring(8, 2, False)
    U9s = _und(9, 0.2, 30)
    # sparse connected graphs: many swaps would disconnect them (rejection branch of *_connected)
    T9 = np.zeros((9, 9))
    for i, j in [(k, k + 1) for k in range(8)] + [(0, 4), (3, 8)]:
        T9[i, j] = T9[j, i] = 1
    TD9 = np.zeros((9, 9))
    for i, j in [(k, (k + 1) % 9) for k in range(9)] + [(0, 4), (5, 2), (7, 3)]:
        TD9[i, j] = 1
    ref, mod, cor, clu, phy, gen = ("bct.algorithms.reference", "bct.algorithms.modularity",
                                    "bct.algorithms.core", "bct.algorithms.clustering",
                                    "bct.algorithms.physical_connectivity", "bct.algorithms.generative")
    t = {}

    def add(name, module, a1, a2, k1=None, k2=None, slow=False, group="", modname=None):
        t[name] = dict(name=name, module=module, attr=modname or name, args=[a1, a2],
                       kwargs=[k1 or {}, k2 or {}], slow=slow, group=group)

    # size regimes: code paths that depend on integer widths switch at sizes such as n**4 > 2**31
    # (n = 216) - one large sparse signed input per signed routine, with a tiny rewiring budget
    Sbig = _und(220, 0.02, 31, wmax=3, signed=True)
    Sbigd = _dir(220, 0.01, 32, wmax=3, signed=True)
    for nm, a1, a2 in [("randmio_und", (U10, 2), (Uw9, 3)), ("randmio_dir", (D8, 2), (Dw9, 3)),
                       ("randmio_und_connected", (U10, 2), (T9, 3)),
                       ("randmio_dir_connected", (D8, 2), (TD9, 3)),
                       ("randmio_und_signed", (Su8, 1), (Su9, 2)),
                       ("randmio_dir_signed", (Sd8, 1), (Sd9, 1)),
                       ("randomize_graph_partial_und", (U10, B10, 3), (Uw9, B9, 4)),
                       ("randomizer_bin_und", (U10, 0.6), (U9s, 0.9)),
                       ("null_model_und_sign", (Fu8, 1, 0.5), (Fu9, 1, 1.0)),
                       ("null_model_dir_sign", (Fd8, 1, 0.5), (Fd9, 1, 1.0))]:
        add(nm, ref, a1, a2, group="rewiring")
    for nm, big in [("randmio_und_signed", (Sbig, 0.002)), ("randmio_dir_signed", (Sbigd, 0.001)),
                    ("null_model_und_sign", (Sbig, 0.002, 0.5)), ("null_model_dir_sign", (Sbigd, 0.001, 0.5))]:
        t[nm]["args"].append(big)
        t[nm]["kwargs"].append({})
    Dist9 = np.abs(np.arange(9)[:, None] - np.arange(9)[None, :]).astype(float) * 1.5 + 1    # explicit D
    for nm, a1, a2 in [("latmio_und", (U10, 2), (Uw9, 2)), ("latmio_dir", (D8, 2), (Dw9, 2)),
                       ("latmio_und_connected", (T9, 3), (Uw9, 2)),
                       ("latmio_dir_connected", (TD9, 3), (Dw9, 2))]:
        add(nm, ref, a1, a2, {}, dict(D=Dist9), group="latticiser")
    for nm, a1, a2 in [("makeevenCIJ", (16, 50, 2), (16, 44, 4)), ("makefractalCIJ", (3, 2.5, 1), (3, 2.0, 2)),
                       ("makerandCIJdegreesfixed", ([2, 1, 2, 1, 2, 2], [1, 2, 2, 2, 1, 2]),
                        ([1, 2, 3, 2, 1, 2, 1], [2, 2, 1, 2, 2, 1, 2])),
                       ("makerandCIJ_dir", (6, 10), (8, 20)), ("makerandCIJ_und", (6, 7), (8, 12)),
                       ("makeringlatticeCIJ", (8, 20), (7, 17)), ("maketoeplitzCIJ", (8, 16, 1.5), (7, 15, 2.0))]:
        add(nm, ref, a1, a2, group="generator")
    # the legal extremes with the SAME size parameters as the first input: the empty and the full
    # network (state that a call leaves behind for the next call of the same size shows between them)
    for nm, extra in [("maketoeplitzCIJ", [(8, 0, 1.5), (8, 40, 1.5)]), ("makerandCIJ_dir", [(6, 0), (6, 30)]),
                      ("makerandCIJ_und", [(6, 0), (6, 15)]), ("makeringlatticeCIJ", [(8, 0), (8, 56)])]:
        for a in extra:
            t[nm]["args"].append(a)
            t[nm]["kwargs"].append({})
    ci8, ci9 = np.array([1, 1, 2, 2, 3, 3, 1, 2]), np.array([1, 2, 3, 1, 2, 3, 1, 2, 3])
    add("community_louvain", mod, (Uw10,), (Fu8,), {}, dict(B="negative_asym", ci=ci8), group="modularity")
    add("modularity_louvain_und", mod, (Uw10,), (U9,), {}, dict(gamma=0.8, hierarchy=True), group="modularity")
    add("modularity_louvain_dir", mod, (R8,), (D9,), {}, dict(gamma=0.8, hierarchy=True), group="modularity")
    add("modularity_louvain_und_sign", mod, (Fu8,), (C92,), {}, dict(qtype="gja"), group="modularity")
    add("modularity_finetune_und", mod, (Uw10,), (U9,), {}, dict(ci=ci9), group="modularity")
    add("modularity_finetune_dir", mod, (Dw8,), (D9,), {}, dict(ci=ci9, gamma=1.2), group="modularity")
    add("modularity_finetune_und_sign", mod, (Fu8,), (Su9,), {}, dict(qtype="neg", ci=ci9), group="modularity")
    add("modularity_probtune_und_sign", mod, (Fu8,), (Su9,), {}, dict(p=0.6, ci=ci9), group="modularity")
    add("core_periphery_dir", cor, (R8,), (C8,), group="other")
    add("consensus_und", clu, (P10, 0.3, 3), (P9, 0.4, 2), group="other", slow=True)
    # input bank: ambiguous agreement matrices for which the first round of `reps` partitions is
    # usually not unanimous, so that the re-clustering loop runs more than once (a stream that is
    # re-created per round only shows there).  Every history draws its two inputs from the bank.
    rb = np.random.RandomState(20260926)
    for _ in range(14):
        nb = int(rb.choice([8, 10, 12]))
        Db = rb.random_sample((nb, nb))
        Db = np.round((Db + Db.T) / 2, 3)
        np.fill_diagonal(Db, 0)
        t["consensus_und"]["args"].append((Db, float(rb.choice([0.3, 0.4, 0.5])), int(rb.choice([4, 6, 10]))))
        t["consensus_und"]["kwargs"].append({})
    add("rentian_scaling", phy, (U12, xyz12, 4), (U11, xyz11, 3), group="other")
    add("nbs_bct", "bct.nbs", (x6, y6, 2.0), (x7, y7, 1.5), dict(k=3), dict(k=2, tail="left"),
        group="nbs", slow=True)
    add("nbs_parallel.nbs_bct", "bct.nbs_parallel", (x6, y6, 2.0), (x7, y7, 1.5),
        dict(k=3, workers=2), dict(k=20, tail="left", workers=2), group="nbs", slow=True, modname="nbs_bct")
    add("generative_model", gen, (A8, Dm8, 7, eta), (A9, Dm9, 8, eta),
        dict(gamma=gam, model_type="matching"), dict(gamma=gam, model_type="deg-avg", model_var="exponential"),
        group="generative")
    add("evaluate_generative_model", gen, (A8, T8, Dm8, eta), (A9, T9, Dm9, eta),
        dict(gamma=gam, model_type="neighbors"), dict(gamma=gam, model_type="clu-min"),
        group="generative", slow=True)
    add("generate_fc", gen, (Uw10, 0.5), (Uw9, 0.2), group="generative")
    add("pick_four_unique_nodes_quickly", "bct.utils.miscellaneous_utilities", (5,), (9,), group="other")
    _INPUTS = t
    return t


# functions that take `seed` but are outside the quantifier (documented in evidence)
EXCLUDED = {"bct.utils.miscellaneous_utilities.get_rng": "the mechanism itself (returns the generator)",
            "bct.algorithms.models.mleme_constraint_model": "not exported by bct; raises NotImplementedError"}
FAST_PARTNERS = ["randmio_und", "modularity_louvain_und", "makerandCIJ_und", "core_periphery_dir",
                 "makerandCIJ_dir", "maketoeplitzCIJ", "modularity_probtune_und_sign",
                 "randomizer_bin_und", "pick_four_unique_nodes_quickly", "rentian_scaling"]


def discover():
    """every function of the bct package tree that has a `seed` parameter (signature inspection)"""
    found = {}
    mods = ["bct", "bct.nbs", "bct.utils", "bct.utils.miscellaneous_utilities", "bct.utils.other",
            "bct.utils.visualization", "bct.algorithms", "bct.algorithms.models"]
    import pkgutil
    import bct.algorithms
    for m in pkgutil.iter_modules(bct.algorithms.__path__):
        mods.append("bct.algorithms." + m.name)
    mods.append("bct.nbs_parallel")
    failed = {}
    for m in mods:
        try:
            mod = importlib.import_module(m)
        except Exception as e:                      # e.g. nbs_parallel without multiprocessing
            failed[m] = repr(e)
            continue
        for name, f in inspect.getmembers(mod, inspect.isfunction):
            try:
                sig = inspect.signature(f)
            except (TypeError, ValueError):
                continue
            if "seed" in sig.parameters:
                found[f.__module__ + "." + f.__name__] = 1
    return sorted(found), failed


def _canon(x, h):
    """canonical bytes of a result: nested tuples/lists of arrays and scalars"""
    if isinstance(x, (tuple, list)):
        h.update(b"T%d(" % len(x))
        for y in x:
            _canon(y, h)
        h.update(b")")
        return
    if x is None:
        h.update(b"None")
        return
    a = np.asarray(x)
    if a.dtype == object:
        h.update(b"O" + repr(x).encode())
        return
    if a.dtype.kind in "biuf":
        a = np.ascontiguousarray(a, dtype=np.float64) + 0.0        # -0.0 -> 0.0
        a = np.where(np.isnan(a), np.nan, a)                      # one nan
        h.update(b"A" + repr(a.shape).encode() + a.tobytes())
    elif a.dtype.kind == "c":
        a = np.ascontiguousarray(a, dtype=np.complex128)
        h.update(b"C" + repr(a.shape).encode() + a.tobytes())
    else:
        h.update(b"S" + repr(a.shape).encode() + repr(a.tolist()).encode())


def fp_result(x):
    h = hashlib.sha1()
    _canon(x, h)
    return h.hexdigest()


def fp_global():
    st = np.random.get_state()
    h = hashlib.sha1()
    h.update(repr(st[0]).encode() + np.asarray(st[1]).tobytes() + repr(tuple(st[2:])).encode())
    return h.hexdigest()


def fp_py():
    return hashlib.sha1(repr(random.getstate()).encode()).hexdigest()


def _copy(x):
    if isinstance(x, np.ndarray):
        return x.copy()
    if isinstance(x, list):
        return list(x)
    return x


def call(name, idx, seed):
    """one real call of routine `name` on its input number idx (0/1), fresh copies of the arguments"""
    ent = _inputs()[name]
    f = getattr(importlib.import_module(ent["module"]), ent["attr"])
    args = [_copy(a) for a in ent["args"][idx]]
    kwargs = {k: _copy(v) for k, v in ent["kwargs"][idx].items()}
    if seed is not None:
        kwargs["seed"] = seed
    try:
        return fp_result(f(*args, **kwargs)), ""
    except Exception as e:
        return "EXC:%s:%s" % (type(e).__name__, hashlib.sha1(str(e).encode()).hexdigest()[:10]), \
               "%s: %s" % (type(e).__name__, str(e)[:80])


def exec_job(job):
    """run one caller program; record tokens (interned fingerprints) around every step"""
    names = {1: job["fn"], 2: job["partner"]}
    ids = {}

    def tok(s):
        return ids.setdefault(s, len(ids) + 1)
    np.random.seed(job["boot"])
    random.seed(job["boot"])
    rec = dict(fn=job["fn"], partner=job["partner"], focus=job.get("focus", "all"),
               g0=tok("g" + fp_global()), p0=tok("p" + fp_py()), events=[], raised={}, draws=[])
    for step in job["program"]:
        op, fnt, at, sk, sv = step
        gb, pb = tok("g" + fp_global()), tok("p" + fp_py())
        res = 0
        if op == "seed":
            np.random.seed(job["seeds"][sv - 1])
        elif op == "draw":
            if sv == 1:
                np.random.random_sample()
            else:
                np.random.standard_normal()           # leaves a cached gaussian in the state
        else:
            name = names[fnt]
            idx = job["amap"][str(fnt)][at - 1]
            if sk == "none":
                seed = None
            elif sk == "int":
                seed = job["seeds"][sv - 1]
            elif job.get("kind") == "rec":
                seed = RecordingRNG(job["seeds"][sv - 1])
            else:
                seed = np.random.RandomState(job["seeds"][sv - 1])
            f, exc = call(name, idx, seed)
            if exc:
                rec["raised"][name] = exc
            if isinstance(seed, RecordingRNG):
                rec["draws"] = list(seed.log)
            res = tok("r" + f)
        rec["events"].append(dict(op=op, fn=fnt, a=at, sk=sk, sv=sv, gb=gb, pb=pb,
                                  ga=tok("g" + fp_global()), pa=tok("p" + fp_py()), res=res))
    return rec


# ------------------------------------------------------------------ programs and jobs
SEED_POOL = [0, 1, 7, 42, 12345, 2 ** 31 - 1, 2 ** 32 - 1]
SLOW_QUICK = {"consensus_und": 250, "nbs_bct": 250, "evaluate_generative_model": 250,
              "nbs_parallel.nbs_bct": 40}
SLOW_THOROUGH = {"consensus_und": 4000, "nbs_bct": 4000, "evaluate_generative_model": 4000,
                 "nbs_parallel.nbs_bct": 400}
INLINE = {"nbs_parallel.nbs_bct"}      # opens its own process pool: cannot run in a pool worker

REC_PROGRAM = [["call", 1, 1, "int", 1], ["call", 1, 1, "RandomState", 1],
               ["call", 1, 2, "int", 1], ["call", 1, 2, "RandomState", 1],
               ["call", 1, 1, "RandomState", 1]]


def _cached_gen(ctx, cfg, tag, workers):
    """programs printed by an exhaustive gen run; cached under .cache/ keyed by the text of the model"""
    import json
    h = hashlib.sha1()
    for f in ("RngDiscipline.tla", "MC_RngDiscipline.tla", cfg):
        h.update(open(os.path.join(core.SPEC, f), "rb").read())
    cache = os.path.join(core.VERIF, ".cache")
    os.makedirs(cache, exist_ok=True)
    path = os.path.join(cache, "c05_%s_%s.json" % (os.path.splitext(cfg)[0], h.hexdigest()[:16]))
    if os.path.exists(path):
        with open(path) as f:
            items = json.load(f)
        core.log("  gen %-27s items=%d (cached %s)" % (tag, len(items), os.path.basename(path)))
        return items
    items = ctx.gen("MC_RngDiscipline.tla", cfg, tag=tag, workers=workers)
    tmp = path + ".%d.tmp" % os.getpid()
    with open(tmp, "w") as f:
        json.dump(items, f)
    os.replace(tmp, path)
    return items


def programs(ctx):
    """(exhaustive, sampled): exhaustive = every canonical program of length 3 ending in a call and
    every program of length <= 5 whose last call ReseedReproduces relates to an earlier one;
    sampled = TLC-simulated programs of length 5 (+ thorough: all canonical programs of length 4)"""
    nsim = 60 if ctx.quick else 400
    thunks = [
        lambda: ctx.gen("MC_RngDiscipline.tla", "Gen_RngDiscipline_full3.cfg", tag="gen_len3", workers=4),
        lambda: _cached_gen(ctx, "Gen_RngDiscipline_reseed5.cfg", "gen_reseed5", 8),
        lambda: ctx.gen("MC_RngDiscipline.tla", "Gen_RngDiscipline_full5.cfg", tag="sim_len5", workers=1,
                        extra=["-simulate", "num=%d" % nsim, "-depth", "6", "-seed", str(ctx.seed + 1)])]
    if not ctx.quick:
        thunks.append(lambda: _cached_gen(ctx, "Gen_RngDiscipline_full4.cfg", "gen_len4", 8))
    out = ctx.parallel(thunks, width=4)
    rng = random.Random(ctx.seed)
    seen, uniq = set(), []
    for p in out[2]:
        k = str(p)
        if k not in seen:
            seen.add(k)
            uniq.append(p)
    want = 150 if ctx.quick else 1000
    if len(uniq) > want:
        uniq = rng.sample(uniq, want)
    exhaustive = out[0] + [p for p in out[1] if len(p) > 3]
    if not out[0] or not out[1] or not uniq:
        raise core.MachineryError("the model generated no caller program")
    return exhaustive, uniq, (out[3] if not ctx.quick else [])


def partner_of(name, k):
    for d in range(len(FAST_PARTNERS)):
        p = FAST_PARTNERS[(k + d) % len(FAST_PARTNERS)]
        if p != name:
            return p


EXOTIC_SEEDS = [2 ** 32 + 5, 2 ** 40, -3]     # RandomState rejects them: get_rng's fallback path


def make_job(rng, name, k, program, kind="hist"):
    s = rng.sample(SEED_POOL + [rng.randrange(2 ** 32), rng.randrange(1000)], 2)
    for t in (1, 2):
        # a seed token that only ever appears as seed=<int> may be one that RandomState() itself rejects
        uses = {st[3] if st[0] == "call" else st[0] for st in program if st[0] != "draw" and st[4] == t
                and not (st[0] == "call" and st[3] == "none")}
        if uses == {"int"} and rng.random() < 0.25:
            s[t - 1] = rng.choice(EXOTIC_SEEDS)
    ins = _inputs()
    a1 = rng.sample(range(len(ins[name]["args"])), 2)          # two inputs from the routine's bank
    pn = partner_of(name, k)
    a2 = rng.sample(range(len(ins[pn]["args"])), 2)
    return dict(fn=name, partner=partner_of(name, k), program=program, amap={"1": a1, "2": a2},
                seeds=s, boot=rng.randrange(2 ** 31), kind=kind, focus="all")


LEN4_PER_FUNCTION = 3000       # thorough: every routine runs a different sample of the length-4 programs


def build_jobs(ctx, short, longs, len4=()):
    rng = random.Random(ctx.seed + 5)
    cap = SLOW_QUICK if ctx.quick else SLOW_THOROUGH
    jobs = []
    only = [x for x in os.environ.get("VERIF_C05_ONLY", "").split(",") if x]   # developer convenience
    for k, name in enumerate(sorted(_inputs())):
        if only and name not in only:
            continue
        progs = list(short) + list(longs)
        if len4:
            progs += rng.sample(list(len4), min(len(len4), LEN4_PER_FUNCTION))
        if name in cap and len(progs) > cap[name]:
            progs = rng.sample(progs, cap[name])
        for p in progs:
            jobs.append(make_job(rng, name, k, p))
        # routines with an input bank: the shortest program that relates an integer seed to the
        # RandomState of that integer, on every bank input with several seeds (a stream re-created
        # inside a loop shows only on inputs that make the loop run more than once)
        nbank = len(_inputs()[name]["args"])
        if nbank > 2:
            pair = [["call", 1, 1, "int", 1], ["call", 1, 1, "RandomState", 1], ["call", 1, 1, "int", 1]]
            for b in range(nbank):
                for _rep in range(4 if ctx.quick else 12):
                    j = make_job(rng, name, k, pair)
                    j["amap"]["1"] = [b, (b + 1) % nbank]
                    j["seeds"] = [rng.randrange(2 ** 31), rng.randrange(1000)]
                    jobs.append(j)
            # ... and the "sandwich" on every ordered pair of bank inputs: the same seeded call before
            # and after a call on ANOTHER input (state a call leaves behind for the next one)
            if nbank <= 6:
                sandwich = [["call", 1, 1, "int", 1], ["call", 1, 2, "int", 2], ["call", 1, 1, "int", 1]]
                for a in range(nbank):
                    for b in range(nbank):
                        if a != b:
                            j = make_job(rng, name, k, sandwich)
                            j["amap"]["1"] = [a, b]
                            j["seeds"] = [rng.randrange(2 ** 31), rng.randrange(1000)]
                            jobs.append(j)
        jobs.append(make_job(rng, name, k, REC_PROGRAM, kind="rec"))
    return jobs


def run_all(jobs):
    """pool workers for everything except the routines that fork their own pool"""
    main = [k for k, j in enumerate(jobs) if j["fn"] not in INLINE and j["partner"] not in INLINE]
    inline = [k for k, j in enumerate(jobs) if not (j["fn"] not in INLINE and j["partner"] not in INLINE)]
    recs = [None] * len(jobs)
    # warm the imports before forking so that no worker pays for them inside a timed call
    for name in _inputs():
        importlib.import_module(_inputs()[name]["module"])
    for m in ("scipy.stats", "scipy.linalg", "scipy.sparse", "multiprocessing.pool"):   # imported lazily by bctpy
        importlib.import_module(m)
    out = pool.run_jobs(__name__, [jobs[k] for k in main], limit=10.0)
    for k, r in zip(main, out):
        recs[k] = r
    if inline:
        out = pool.run_jobs(__name__, [jobs[k] for k in inline], limit=20.0, procs=1)
        for k, r in zip(inline, out):
            recs[k] = r
    return recs


def validate_parallel(ctx, recs, tag, par=4):
    if len(recs) < 3000:
        return ctx.validate(TRACE[0], TRACE[1], recs, tag=tag)
    parts = max(par, (len(recs) + 5999) // 6000)
    size = (len(recs) + parts - 1) // parts
    out, errs = [None] * parts, []
    sem = threading.Semaphore(par)

    def one(k):
        with sem:
            try:
                out[k] = ctx.validate(TRACE[0], TRACE[1], recs[k * size:(k + 1) * size],
                                      tag="%s_p%d" % (tag, k), chunk=size + 1)
            except Exception as e:
                errs.append(e)
    ths = [threading.Thread(target=one, args=(k,)) for k in range(parts)]
    for t in ths:
        t.start()
    for t in ths:
        t.join()
    if errs:
        raise errs[0]
    return [v for part in out for v in part]


def describe(job, rec):
    """the program in python words with the observed tokens (g = numpy global, r = result)"""
    names = {1: job["fn"], 2: job["partner"]}
    out = []
    for st, ev in zip(job["program"], rec.get("events", [])):
        op, fnt, at, sk, sv = st
        if op == "seed":
            s = "np.random.seed(%r)" % job["seeds"][sv - 1]
        elif op == "draw":
            s = "np.random.random_sample()" if sv == 1 else "np.random.standard_normal()"
        else:
            sd = {"none": "", "int": ", seed=%r" % job["seeds"][sv - 1] if sk == "int" else "",
                  "RandomState": ", seed=RandomState(%r)" % job["seeds"][sv - 1] if sk == "RandomState" else ""}[sk]
            s = "%s(input%d%s)->r%d" % (names[fnt], job["amap"][str(fnt)][at - 1] + 1, sd, ev["res"])
        out.append("%s [g%d->g%d%s]" % (s, ev["gb"], ev["ga"], "" if ev["pb"] == ev["pa"] else " py%d->py%d" % (ev["pb"], ev["pa"])))
    return "; ".join(out) + ((" raised=" + str(rec.get("raised"))) if rec.get("raised") else "")


def what(job, rec, clause):
    return "program: " + describe(job, rec)


def attribute(recs, verdicts):
    """TLC's verdict names the function token whose call broke the clause: book it to that routine"""
    r2, v2 = [], []
    for r, v in zip(recs, verdicts):
        if v[2] == "fn2":
            r = dict(r, fn=r["partner"], booked_from=r["fn"])
        r2.append(r)
        v2.append((v[0], v[1], "any"))
    return r2, v2


def check_env(verdicts, recs):
    for v, r in zip(verdicts, recs):
        if v[0].startswith("skip:env_"):
            raise core.MachineryError("harness book-keeping broken (%s) for %s" % (v[0], r.get("fn")))


def static_scan():
    """uses of np.random.* / random.* in code (not comments or strings) of bct/: information only"""
    import io
    import tokenize
    hits = []
    root = os.path.join(core.REPO, "bct")
    for d, _, files in os.walk(root):
        for fn in sorted(files):
            if not fn.endswith(".py"):
                continue
            path = os.path.join(d, fn)
            try:
                src = open(path, encoding="utf-8").read()
                toks = list(tokenize.generate_tokens(io.StringIO(src).readline))
            except Exception as e:
                hits.append(dict(file=os.path.relpath(path, core.REPO), line=0, code="unreadable: %r" % e))
                continue
            code_lines = {}
            for t in toks:
                if t.type in (tokenize.COMMENT, tokenize.STRING, tokenize.NL, tokenize.NEWLINE,
                              tokenize.INDENT, tokenize.DEDENT, tokenize.ENDMARKER):
                    continue
                code_lines.setdefault(t.start[0], []).append(t.string)
            infn = None
            lines = src.splitlines()
            for ln in sorted(code_lines):
                text = "".join(code_lines[ln])
                m = re.match(r"\s*def\s+(\w+)", lines[ln - 1])
                if m and not lines[ln - 1].startswith(" "):
                    infn = m.group(1)
                if re.search(r"(np|numpy)\.random\.|(?<![\w.])random\.\w|importrandom|fromrandomimport|fromnumpy\.randomimport", text):
                    hits.append(dict(file=os.path.relpath(path, core.REPO), line=ln, function=infn,
                                     inside_get_rng=(infn == "get_rng"), code=lines[ln - 1].strip()[:120]))
    return hits


QUICK_MODELS = [("MC_RngDiscipline_good_mixed3.cfg", 4), ("MC_RngDiscipline_good_canon4.cfg", 4),
                ("MC_RngDiscipline_matrix_f1_len4.cfg", 1)]
THOROUGH_MODELS = [("MC_RngDiscipline_good_mixed4.cfg", 8), ("MC_RngDiscipline_good_canon5.cfg", 8),
                   ("MC_RngDiscipline_matrix_f2_len4.cfg", 1), ("MC_RngDiscipline_matrix_f1_len5.cfg", 1)]


def run(ctx):
    # matrix_*: one worker, the violation matrix is collected in TLC registers, which are per worker
    models = QUICK_MODELS if ctx.quick else THOROUGH_MODELS
    thunks = [(lambda c=c, w=w: ctx.mc("MC_RngDiscipline.tla", c, tag="mc_" + c[17:-4], workers=w))
              for c, w in models]
    res = ctx.parallel(thunks + [lambda: programs(ctx)], width=len(thunks) + 1)
    short, longs, len4 = res[-1]
    for (c, w), r in zip(models, res):
        if "matrix" in c and r is not None:
            m = re.search(r'<<"matrix", (.*)>>', r["out"])
            ctx.extra["model_violation_matrix"] = m.group(1) if m else "?"
    found, failed = discover()
    covered = {_inputs()[n]["module"] + "." + _inputs()[n]["attr"]: n for n in _inputs()}
    missing = [f for f in found if f not in covered and f not in EXCLUDED]
    if missing:
        # a new seed-accepting function without an input recipe is reported, not judged
        core.log("NOTE seed-accepting functions without inputs in the C05 table (uncovered): %s" % missing)
        ctx.extra["uncovered_new_seeded_functions"] = missing
    jobs = build_jobs(ctx, short, longs, len4)
    recs = run_all(jobs)
    verdicts = validate_parallel(ctx, recs, "all")
    check_env(verdicts, recs)
    ra, va = attribute(recs, verdicts)
    ctx.judge(jobs, ra, va, what=what)
    # every clause a routine breaks: re-judge the recorded histories of the routines that failed,
    # one clause at a time (same observations, no new execution)
    bad_fns = sorted({r["fn"] for r, v in zip(ra, va)
                      if not r.get("timeout") and v[0] != "ok" and not v[0].startswith("skip:")})
    sel = [(j, r) for j, r in zip(jobs, recs) if not r.get("timeout")
           and (r.get("fn") in bad_fns or r.get("partner") in bad_fns)]

    def focus(c):
        j2 = [dict(j, focus=c) for j, _ in sel]
        r2 = [dict(r, focus=c) for _, r in sel]
        return j2, r2, ctx.validate(TRACE[0], TRACE[1], r2, tag="focus_" + c, chunk=100000)
    if sel:
        for j2, r2, v2 in ctx.parallel([(lambda c=c: focus(c)) for c in CLAUSES], width=6):
            r2, v2 = attribute(r2, v2)
            ctx.judge(j2, r2, v2, what=what)
    # ---- book-keeping for the evidence file (no judgement below) ----
    per_fn, nontriv, sens, streams, raised = {}, set(), {}, {}, {}
    for j, r in zip(jobs, recs):
        if r.get("timeout"):
            continue
        per_fn[r["fn"]] = per_fn.get(r["fn"], 0) + 1
        calls = [(st, ev) for st, ev in zip(j["program"], r["events"]) if st[0] == "call"]
        keys = [(st[1], st[2], st[3], st[4] if st[3] != "none" else 0) for st, _ in calls]
        related = any((a[0], a[1]) == (b[0], b[1]) and ((a[2] == "none") == (b[2] == "none"))
                      and (a[2] == "none" or a[3] == b[3])
                      for x, a in enumerate(keys) for b in keys[x + 1:])
        if related:
            nontriv.add((r["fn"], str(j["program"])))
        for x, (sa, ea) in enumerate(calls):
            for sb, eb in calls[x + 1:]:
                if sa[1] == sb[1] == 1 and sa[2] == sb[2] and sa[3] != "none" and sb[3] != "none" and sa[4] != sb[4]:
                    d = sens.setdefault(r["fn"], [0, 0])
                    d[0] += 1
                    d[1] += ea["res"] != eb["res"]
        for nm, e in r.get("raised", {}).items():
            raised[nm] = e
        if j.get("kind") == "rec":
            cnt = {}
            for d in r.get("draws", []):
                cnt[d] = cnt.get(d, 0) + 1
            streams[r["fn"]] = dict(private_stream_draws=cnt,
                                    global_stream_touched=any(e["gb"] != e["ga"] for e in r["events"]),
                                    python_random_touched=any(e["pb"] != e["pa"] for e in r["events"]))
    ctx.nontrivial = len(nontriv)
    ctx.exhaustive = True
    ctx.rule = ("every renaming-canonical caller program of length 3 ending in a call and every program of length "
                "<= 5 whose last call ReseedReproduces relates to an earlier one (TLC-enumerated, %d), %d "
                "TLC-simulated programs of length 5%s, each run against every one of the %d seed-accepting "
                "routines on two small inputs (slow routines: a seeded sample of the programs, see "
                "records_per_function); non-trivial = distinct (routine, program) containing two calls of the "
                "same routine and input that a functional clause relates" % (
                    len(short), len(longs),
                    "" if ctx.quick else " and per routine a seeded sample of %d of the %d canonical programs of "
                    "length 4" % (min(len(len4), LEN4_PER_FUNCTION), len(len4)), len(_inputs())))
    ctx.extra["seed_accepting_functions_found"] = found
    ctx.extra["functions_excluded"] = EXCLUDED
    ctx.extra["modules_not_importable"] = failed
    ctx.extra["records_per_function"] = per_fn
    ctx.extra["seed_sensitivity"] = {k: "%d of %d pairs of calls with different seeds gave different results" % (v[1], v[0])
                                     for k, v in sorted(sens.items())}
    ctx.extra["streams_used_under_RecordingRNG"] = streams
    ctx.extra["calls_that_raise"] = raised
    ctx.extra["timed_out_histories"] = [dict(fn=j["fn"], partner=j["partner"], program=j["program"], seeds=j["seeds"])
                                        for j, r in zip(jobs, recs) if r.get("timeout")][:20]
    ctx.extra["static_scan_information_only"] = static_scan()
    ctx.extra["notes"] = [
        "nbs_parallel.nbs_bct with an int seed re-seeds every permutation identically (k copies of one permutation); "
        "with seed=None permutation u is seeded with u, so the global stream is never used",
        "generate_fc and bct.algorithms.models.mleme_constraint_model raise NotImplementedError after get_rng(seed)",
    ]
    ok = next((k for k, v in enumerate(verdicts) if v[0] == "ok" and len(jobs[k]["program"]) >= 4), 0)
    ctx.add_sample("history", dict(job=jobs[ok], record=recs[ok], words=describe(jobs[ok], recs[ok])))
    ctx.add_sample("history", dict(job=jobs[-1], record=recs[-1], words=describe(jobs[-1], recs[-1])))
    ctx.assumptions += [
        "SHA-1 fingerprints of np.random.get_state(), random.getstate() and of the canonical bytes of the results "
        "identify them (no collisions); -0.0/0.0 and nan payloads are identified",
        "np.random.seed(s) and draws by the caller are deterministic (checked per record: skip:env_*)",
        "two small inputs per routine; a routine whose randomness does not reach the result on these inputs "
        "(see seed_sensitivity) can hide SameSeed/IntSeed defects but not stream-discipline defects",
        "worker processes are forked; hidden state shared between jobs in one worker is reset only as far as "
        "np.random.seed/random.seed reset it",
    ]
    return ctx.finish()


def replay(ctx, rp):
    job = rp["job"]
    recs = run_all([job])
    verdicts = ctx.validate(TRACE[0], TRACE[1], recs)
    core.log("replay verdict:", verdicts[0])
    core.log("  " + describe(job, recs[0]))
    check_env(verdicts, recs)
    ra, va = attribute(recs, verdicts)
    ctx.judge([job], ra, va, what=what)
    return ctx.finish()
