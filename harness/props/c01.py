"""C01 - degree-preserving rewiring keeps degrees and the weight multiset.

mc:        spec/RewireImpl.tla (L2 machine of the rewiring loops) for every variant: degree,
           bag, diagonal, symmetry, out-strength, edge-list/matrix sync, zero-eff invariants and
           refinement of the abstract swap, on all graphs with N=4 (5 thorough); PermLemma for
           the latticisers' re-indexing.
spec->code: TLC -simulate behaviours of the same machine (draw scripts) forced onto the real
           routines through ScriptedRNG; result compared with the model's.
code->spec: seeded real runs on random graphs n in 5..9 with hook events; spec/Trace_Rewire.tla
           judges every accepted swap and every returned value.
"""
import random

import numpy as np

from .. import core, pool, rewire_common as rc

PROP = "C01"
FNS = ["randmio_und", "randmio_und_connected", "randmio_dir", "randmio_dir_connected",
       "latmio_und", "latmio_und_connected", "latmio_dir", "latmio_dir_connected",
       "randomize_graph_partial_und"]
GEN = {  # gen cfg -> fn
    "und4": "randmio_und", "und5": "randmio_und", "undconn5": "randmio_und_connected",
    "dir4": "randmio_dir", "dirconn4": "randmio_dir_connected",
    "lattund5": "latmio_und", "lattundconn5": "latmio_und_connected",
    "lattdir4": "latmio_dir", "lattdirconn4": "latmio_dir_connected",
    "mask4": "randomize_graph_partial_und", "mask5": "randomize_graph_partial_und",
}
RANDOMIZER_GEN = {"5": 30, "6": 30}
MC_QUICK = ["q_und4", "q_dir4", "q_lattund4", "q_lattdir4", "q_mask4"]
MC_THOROUGH = ["q_und4", "t_und5", "t_dir4", "t_lattund5", "t_lattdir4", "t_mask4"]


def exec_job(job):
    return rc.exec_job(job)


def edge_count(R0, fn):
    A = np.array(R0)
    dr = rc.VARIANTS[fn][0]
    return int((A != 0).sum()) if dr else int((np.tril(A) != 0).sum())


def behaviour_jobs(ctx, prop, gens, per_worker):
    jobs = []
    thunks = [(lambda cfg=cfg: ctx.gen("MC_Rewire.tla", "Gen_Rewire_%s.cfg" % cfg, tag="sim_" + cfg,
                                       workers=4, timeout=600,
                                       extra=["-simulate", "num=%d" % per_worker, "-depth", "200",
                                              "-seed", str(ctx.seed + 11)]))
              for cfg in gens]
    results = ctx.parallel(thunks, width=6)
    for (cfg, fn), items in zip(gens.items(), results):
        seen = set()
        for it in items:
            key = (str(it["R0"]), str(it["B"]), str(it["script"]))
            if key in seen:
                continue
            seen.add(key)
            dr, conn, latt, mask, signed = rc.VARIANTS[fn]
            k = edge_count(it["R0"], fn)
            if mask:
                job = rc.model_to_job(fn, prop, it, maxswap=it["iters"])
            elif latt:
                job = rc.model_to_job(fn, prop, it, itr=int(it["iters"]), altD=it["D"])
            else:
                job = rc.model_to_job(fn, prop, it, itr=(it["iters"] + 0.5) / k)
            job["cfg"] = cfg
            jobs.append(job)
    return jobs


def randomizer_jobs(ctx, prop, per_worker):
    """behaviours of spec/RandomizerImpl.tla (alpha coin, mate index, orientation) replayed into
    randomizer_bin_und with alpha = 1/2"""
    res = ctx.parallel([(lambda n=n: ctx.gen("MC_Randomizer.tla", "Gen_Randomizer_%s.cfg" % n,
                                             tag="sim_randomizer" + n, workers=4, timeout=600,
                                             extra=["-simulate", "num=%d" % per_worker, "-depth", "80",
                                                    "-seed", str(ctx.seed + 23)])) for n in RANDOMIZER_GEN],
                       width=2)
    jobs, seen = [], set()
    for items in res:
        for it in items:
            key = (str(it["R0"]), str(it["script"]))
            if key in seen or it["rejected"]:
                continue
            seen.add(key)
            jobs.append(dict(fn="randomizer_bin_und", prop=prop, R0=it["R0"], alpha=0.5,
                             script=[list(x) for x in it["script"]], expect=dict(R=it["R"], eff=0),
                             src="model-behaviour", cfg="randomizer"))
    return jobs


def unlucky_jobs(ctx, prop, jobs, count):
    """'every sequence of random edge-pair choices' includes arbitrarily long runs of unlucky
    draws: take scripted behaviours and put thousands of invalid picks (two edges that share a
    vertex - a stutter of the L2 machine, RewireImpl!Pick with BadPicks) in front of their picks.
    A re-pick loop that gives up, or proceeds with the last rejected pair, shows only then."""
    rng = random.Random(ctx.seed + 404)
    out = []
    cands = [j for j in jobs if j.get("script") and j["fn"] != "randomizer_bin_und"
             and not rc.VARIANTS[j["fn"]][4]]
    rng.shuffle(cands)
    for j in cands:
        if len(out) >= count:
            break
        fn = j["fn"]
        dr, conn, latt, mask, signed = rc.VARIANTS[fn]
        A = np.array(j["R0"])
        if dr:
            ii, jj = np.where(A)
        elif mask:
            ii, jj = np.where(np.triu(A, 1))
        else:
            ii, jj = np.where(np.tril(A))
        k = len(ii)
        bad = [(x + 1, y + 1) for x in range(k) for y in range(k) if x != y and
               len({ii[x], jj[x], ii[y], jj[y]}) < 4]
        if not bad:
            continue
        # only before the FIRST pick: the edge list (hence which pairs are invalid) changes later
        first = next((t for t, it in enumerate(j["script"]) if it[0] == "p"), None)
        if first is None:
            continue
        nbad = rng.choice([300, 2500, 6000])
        pref = [["p", *rng.choice(bad)] for _ in range(nbad)]
        j2 = dict(j)
        j2["script"] = j["script"][:first] + pref + j["script"][first:]
        j2["src"] = "model-behaviour+unlucky-prefix"
        out.append(j2)
    return out


def random_jobs(ctx, prop, fns, count):
    rng = random.Random(ctx.seed * 7919 + 1)
    jobs = []
    for t in range(count):
        fn = fns[t % len(fns)]
        dr, conn, latt, mask, signed = rc.VARIANTS[fn]
        A = rc.rand_input(rng, fn)
        n = len(A)
        job = dict(fn=fn, prop=prop, R0=A.tolist(), seed=rng.randrange(2 ** 31), src="random")
        if rng.random() < 0.4:
            job["dtype"] = rng.choice(["int", "int32", "uint8", "float32", "bool"])
        if rng.random() < 0.25:
            job["layout"] = rng.choice(["F", "view"])
        if rng.random() < 0.3:           # weight magnitudes (see rewire_common: exact power-of-two scaling)
            p2 = rng.choice([8, 8, 40, -560])
            ok = {8: (None, "int", "int32", "int16", "float32"), 40: (None, "int"), -560: (None,)}[p2]
            if job.get("dtype") in ok:
                job["pow2"] = p2
            elif rng.random() < 0.5:
                job["dtype"] = rng.choice(ok)
                job["pow2"] = p2
        if mask:
            B = np.zeros((n, n))
            mval = rng.choice([1, 1, 0.5, 0.25, -1, 3])      # any nonzero value forbids the cell
            for _ in range(rng.randint(0, n)):
                u, v = rng.sample(range(n), 2)
                B[u, v] = B[v, u] = mval
            job["B"] = B.tolist()
            job["maxswap"] = rng.choice([0, 1, 2, 5])
        elif latt:
            job["itr"] = rng.choice([0, 1, 1, 2])
            if rng.random() < 0.4:     # caller-supplied D (symmetric for the undirected routines)
                D = np.array([[rng.randint(0, 4) for _ in range(n)] for _ in range(n)])
                if not dr:
                    D = np.triu(D) + np.triu(D, 1).T
                job["D"] = D.tolist()
        else:
            job["itr"] = rng.choice([0, 1, 2, 0.5, 5 if n <= 6 else 1])
        jobs.append(job)
    if prop == "C01":
        # randomizer_bin_und: binary undirected input of every density (sparse, and dense enough for
        # the complement branch), fully connected nodes, alpha in {0, .3, 1}
        for t in range(max(60, count // 5)):
            n = rng.randint(4, 9)
            A = np.zeros((n, n))
            dens = rng.choice([0.15, 0.3, 0.5, 0.7, 0.9])
            for i in range(n):
                for j in range(i + 1, n):
                    if rng.random() < dens:
                        A[i, j] = A[j, i] = 1
            if t % 9 == 0:
                A[0, 1:] = A[1:, 0] = 1          # a fully connected node
            if not rc.two_disjoint_edges(A, True):
                continue
            jobs.append(dict(fn="randomizer_bin_und", prop=prop, R0=A.tolist(), alpha=rng.choice([0, 0.3, 1.0]),
                             seed=rng.randrange(2 ** 31), src="random"))
    return jobs


def run_family(ctx, prop, fns, gens, mc_cfgs, extra_mc=()):
    thunks = [(lambda c=c: ctx.mc("MC_Rewire.tla", "MC_Rewire_%s.cfg" % c, tag="mc_" + c,
                                  timeout=3000, workers=6)) for c in mc_cfgs]
    thunks += [(lambda t=t, c=c: ctx.mc(t, c, workers=6)) for t, c in extra_mc]
    ctx.parallel(thunks, width=4)
    jobs = behaviour_jobs(ctx, prop, gens, 80 if ctx.quick else 800)
    if prop == "C01":
        jobs += randomizer_jobs(ctx, prop, 40 if ctx.quick else 400)
    jobs += unlucky_jobs(ctx, prop, jobs, 60 if ctx.quick else 400)
    nb = len(jobs)
    jobs += random_jobs(ctx, prop, fns, 270 if ctx.quick else 4500)
    recs = pool.run_jobs("harness.props.c01", jobs, limit=10.0, reuse=True, abort=True)
    verdicts = ctx.validate("Trace_Rewire.tla", "Trace_Rewire.cfg", recs, chunk=1500)
    ctx.judge(jobs, recs, verdicts)
    scripted = [r for r in recs[:nb] if not r.get("timeout")]
    ctx.extra["scripted_behaviours"] = nb
    ctx.extra["scripted_followed"] = sum(1 for r in scripted if r["script_status"] == "followed")
    ctx.extra["scripted_off_script"] = sum(1 for r in scripted if r["script_status"].startswith("off"))
    ctx.extra["hook_events_validated"] = sum(len(r.get("events", [])) for r in recs)
    nt = set()
    for j, r in zip(jobs, recs):
        if r.get("events") and any(e["acc"] for e in r["events"]):
            nt.add((r["fn"], str(r["R0"]), str(j.get("script") or j.get("seed"))))
    ctx.nontrivial = len(nt)
    ctx.rule = ("behaviours = TLC -simulate runs of RewireImpl (draw scripts replayed through ScriptedRNG) "
                "plus seeded random runs n in 5..9 of every routine; non-trivial = distinct "
                "(routine, input, draws) with at least one accepted swap")
    if nb:
        ctx.add_sample("scripted-behaviour", dict(job=jobs[0], script_status=recs[0].get("script_status"),
                                                  eff=recs[0].get("eff_out")))
    ctx.add_sample("random-trace", dict(job=jobs[-1], events=len(recs[-1].get("events", [])),
                                        first_events=recs[-1].get("events", [])[:2]))
    ctx.assumptions += [
        "integer weights 1..3; n <= 9 for recorded traces; exhaustive model only for N = 4/5",
        "hooks (BCTPY_VERIF=1) report the loop state after each attempt; a dropped hook shows as drift",
    ]
    return ctx.finish()


def run(ctx):
    return run_family(ctx, PROP, FNS, GEN, MC_QUICK if ctx.quick else MC_THOROUGH,
                      extra_mc=[("MC_PermLemma.tla", "MC_PermLemma.cfg"),
                                ("MC_Randomizer.tla", "MC_Randomizer_5.cfg"),
                                # the Apalache-typed copies of the swap operators (unbounded induction,
                                # spec/apalache/ApaSwap.tla, harness/apaswap.sh) equal Rewire.tla's: 120 matrices x 5^4
                                ("MC_ApaSwapBind.tla", "MC_ApaSwapBind.cfg")])


def replay(ctx, rp):
    job = rp["job"]
    recs = pool.run_jobs("harness.props.c01", [job], limit=30.0)
    verdicts = ctx.validate("Trace_Rewire.tla", "Trace_Rewire.cfg", recs)
    core.log("replay verdict:", verdicts[0])
    ctx.judge([job], recs, verdicts)
    return ctx.finish()
