"""X04 (extended coverage; NOT registered in MANIFEST) - path / walk enumeration and communication
measures equal their documented definitions.

mc:       spec/FindPathsImpl.tla - findpaths' loop over the path length (seed block, unique
          endpoints, extension of every stored path by every legal connection, removal of cycles,
          stop test) as a machine over every digraph on <= 4 nodes x source sets x qmax; TLC proves
          that it ends with the counts of three independent L0 definitions of spec/Paths.tla
          (declarative enumeration of node sequences, growth by one connection, subset counting)
          and the loop invariants on the way (MC_FindPaths*.cfg).
          spec/MC_Paths.tla - on every small graph: breadth's loop ends with a valid BFS tree;
          reachability / distance with cycle lengths on the diagonal = what the loops of
          breadthdist and reachdist produce; shortest-path probability = entry of the power of the
          transition matrix = sum of the search-information path probabilities; matching index
          symmetric within [0,1].
gen/run:  findpaths (+ cycprob on its output), cycprob (on TLC-generated path-count arrays and on
          arbitrary arrays), breadth, breadthdist, reachdist, search_information (each transform,
          with and without memory), path_transitivity, rout_efficiency (pairwise and local),
          diffusion_efficiency, resource_efficiency_bin on every TLC-enumerated digraph n <= 4 /
          graph n <= 5 (sampled where noted in `rule`), seeded random and structured graphs
          (findpaths n <= 8, weighted routines n <= 7, BFS / reachdist up to 60 nodes and layered
          digraphs whose walk counts exceed the argument's integer type), dtypes and layouts.
validate: spec/Trace_Paths.tla judges every record (one record per real call).

Python only calls bctpy and encodes numbers.  Encodings beyond harness/encode.py:
  lengths   as in c03.py (mode bin/len: the matrix itself; inv: weights 1/k, k in {1,2,4}; log:
            weights 2^-k, k in {1,2,3}, observed efficiencies multiplied by ln 2)
  SI        search information also as X3 = round(2^SI * 1000) (2^SI is the rational 1/probability)
  Eres      also as X6 = round((1 - lambda)^Eres * 10^6) (= 1 - shortest-path probability)
"""
import json
import math
import os
import random
import threading

import numpy as np

from .. import core, encode, inputs, pool
from . import rel_common as rc

LN2 = math.log(2.0)
TLA, CFG = "Trace_Paths.tla", "Trace_Paths.cfg"
TRANSFORM = {"bin": None, "len": None, "inv": "inv", "log": "log"}
CODES = {"bin": [1], "len": [1, 2, 3], "inv": [1, 2, 4], "log": [1, 2, 3]}
LAMBDAS = [(1, 2), (7, 20), (1, 10), (9, 10)]
BAD_LAMBDAS = [(0, 1), (1, 1), (-1, 2), (3, 2)]
CAP = 2000000000


# ----------------------------------------------------------------- encoding
def _q(x, scale=encode.Q6):
    x = float(x)
    if math.isnan(x):
        return encode.NAN
    if math.isinf(x) or abs(x * scale) >= 1e9:
        return encode.INF if x > 0 else encode.NINF
    return int(round(x * scale))


def _qm(M, f=1.0):
    return [[_q(v * f) for v in row] for row in np.asarray(M, dtype=float)]


def _qv(a, f=1.0):
    return [_q(v * f) for v in np.asarray(a, dtype=float).ravel()]


def _im(M):
    return encode.mat_int(np.asarray(M, dtype=float))


def _iv(a):
    return encode.vec_int(np.asarray(a, dtype=float))


def lm_of(K):
    return [[encode.INF if v < 0 else int(v) for v in row] for row in K]


def input_of(K, mode):
    K = np.array(K, dtype=float)
    A = np.zeros_like(K)
    m = K >= 0
    if mode in ("bin", "len"):
        A[m] = K[m]
    elif mode == "inv":
        A[m] = 1.0 / K[m]
    else:
        A[m] = 2.0 ** (-K[m])
    return A


def _pow_enc(base, M, scale):
    """round(base^x * scale) per entry; nan -> NAN, beyond the integer range -> INF"""
    out = []
    for row in np.asarray(M, dtype=float):
        o = []
        for x in row:
            if math.isnan(x):
                o.append(encode.NAN)
                continue
            try:
                v = (base ** x) * scale if not math.isinf(x) else (
                    0.0 if (x < 0) == (base > 1) else float("inf"))
            except OverflowError:
                v = float("inf")
            o.append(encode.INF if not v < 1e9 else int(round(v)))
        out.append(o)
    return out


# ------------------------------------------------------------------ one call
def _arg(job, M):
    return rc.as_variant(np.asarray(M), job.get("dtype", "float64"), job.get("layout", "C"))


def exec_job(job):
    import bct
    kind = job["kind"]
    rec = dict(fn=job["fn"], kind=kind, raised="", malformed="")
    try:
        return _EXEC[kind](bct, job, rec)
    except pool.CallTimeout:
        raise
    except core.MachineryError:
        raise
    except _Malformed as e:
        rec["malformed"] = str(e)[:100]
        return rec


class _Malformed(Exception):
    pass


def _guard(rec, thunk):
    """run the real call; an exception of the code is recorded, never raised"""
    try:
        return True, thunk()
    except pool.CallTimeout:
        raise
    except Exception as e:
        rec["raised"] = encode.exc_name(e)
        return False, None


def _ints(f, *a):
    try:
        return f(*a)
    except (ValueError, TypeError) as e:
        raise _Malformed("%s: %s" % (type(e).__name__, e))


def x_findpaths(bct, job, rec):
    A = np.array(job["A"])
    n = len(A)
    srcs = list(job["srcs"])
    rec.update(n=n, A=(A != 0).astype(int).tolist(), qmax=int(job["qmax"]), srcs=[s + 1 for s in srcs],
               Pq=[], tpath=-1, plq=[], qstop=-1, allp="other", util=[], fc=[], pc=[])
    sarg = np.array(srcs) if job.get("srcs_as") != "list" else srcs
    ok, out = _guard(rec, lambda: bct.findpaths(_arg(job, A), int(job["qmax"]), sarg))
    if not ok:
        return rec
    if out is None or not isinstance(out, tuple) or len(out) != 6:
        raise _Malformed("findpaths returned %s instead of six values" % type(out).__name__)
    Pq, tpath, plq, qstop, allp, util = out
    Pq = np.asarray(Pq, dtype=float)
    util = np.asarray(util, dtype=float)
    if Pq.ndim != 3 or util.ndim != 2:
        raise _Malformed("Pq / util of shape %s / %s" % (Pq.shape, util.shape))
    rec["Pq"] = _ints(lambda: [_im(Pq[:, :, q]) for q in range(Pq.shape[2])])
    rec["util"] = _ints(lambda: [_iv(util[:, q]) for q in range(util.shape[1])])
    rec["plq"] = _ints(_iv, plq)
    rec["tpath"] = _ints(encode.e_int, tpath)
    rec["qstop"] = _ints(encode.e_int, qstop)
    rec["allp"] = "none" if allp is None else ("empty" if np.size(allp) == 0 else "other")
    try:                                       # cycprob on the very array that was returned
        fc, pc = bct.cycprob(out[0])
        rec["fc"], rec["pc"] = _qv(fc), _qv(pc)
    except pool.CallTimeout:
        raise
    except Exception as e:
        rec["fc"], rec["pc"] = [encode.NAN], [encode.NAN]
        rec["cycraised"] = encode.exc_name(e)
    return rec


def x_cycprob(bct, job, rec):
    Pq = np.array(job["Pq"])                    # [q][i][j]
    n = Pq.shape[1]
    rec.update(n=n, Pq=Pq.tolist(), fc=[], pc=[])
    arr = np.ascontiguousarray(np.transpose(Pq, (1, 2, 0))).astype(job.get("dtype", "float64"))
    if job.get("layout") == "F":
        arr = np.asfortranarray(arr)
    ok, out = _guard(rec, lambda: bct.cycprob(arr))
    if ok:
        rec["fc"], rec["pc"] = _qv(out[0]), _qv(out[1])
    return rec


def x_breadth(bct, job, rec):
    A = np.array(job["A"])
    rec.update(n=len(A), A=A.tolist(), s=int(job["s"]) + 1, dist=[], braw=[])
    ok, out = _guard(rec, lambda: bct.breadth(_arg(job, A), int(job["s"])))
    if ok:
        rec["dist"] = _ints(_iv, out[0])
        rec["braw"] = _ints(_iv, out[1])
    return rec


def x_rd(bct, job, rec):
    A = np.array(job["A"])
    rec.update(n=len(A), A=A.tolist(), R=[], D=[], dt=job.get("dtype", "float64"))
    f = getattr(bct, job["base"])
    ok, out = _guard(rec, lambda: f(_arg(job, A)))
    if ok:
        rec["R"] = _ints(_im, np.asarray(out[0]).astype(float))
        rec["D"] = _ints(_im, out[1])
    return rec


def x_si(bct, job, rec):
    K, mode = job["K"], job["mode"]
    rec.update(n=len(K), Lm=lm_of(K), mode=mode, mem=int(job["mem"]), SI=[], X3=[])
    A = input_of(K, mode)
    ok, out = _guard(rec, lambda: bct.search_information(_arg(job, A), TRANSFORM[mode], bool(job["mem"])))
    if ok:
        SI = np.asarray(out, dtype=float)
        if SI.ndim != 2:
            raise _Malformed("SI of shape %s" % (SI.shape,))
        rec["SI"] = _qm(SI)
        rec["X3"] = _pow_enc(2.0, SI, 1000.0)
    return rec


def x_pt(bct, job, rec):
    K, mode = job["K"], job["mode"]
    rec.update(n=len(K), Lm=lm_of(K), mode=mode, T=[])
    A = input_of(K, mode)
    ok, out = _guard(rec, lambda: bct.path_transitivity(_arg(job, A), TRANSFORM[mode]))
    if ok:
        T = np.asarray(out, dtype=float)
        if T.ndim != 2:
            raise _Malformed("T of shape %s" % (T.shape,))
        rec["T"] = _qm(T)
    return rec


def x_rout(bct, job, rec):
    K, mode = job["K"], job["mode"]
    rec.update(n=len(K), Lm=lm_of(K), mode=mode, ge=-1, E=[], el=[])
    A = input_of(K, mode)
    ok, out = _guard(rec, lambda: bct.rout_efficiency(_arg(job, A), transform=TRANSFORM[mode]))
    if ok:
        f = LN2 if mode == "log" else 1.0
        rec["ge"] = _q(float(out[0]) * f)
        rec["E"] = _qm(out[1], f)
        rec["el"] = _qv(out[2], f)
    return rec


def x_diff(bct, job, rec):
    A = np.array(job["A"])
    rec.update(n=len(A), A=A.tolist(), ge=-1, E=[])
    ok, out = _guard(rec, lambda: bct.diffusion_efficiency(_arg(job, A)))
    if ok:
        rec["ge"] = _q(out[0])
        rec["E"] = _qm(out[1])
    return rec


def x_res(bct, job, rec):
    A = np.array(job["A"])
    lam = job["lam"]
    lp, lq = job.get("lp", 1), job.get("lq", 2)
    lamb = float("nan") if lam == "nan" else lp / lq
    rec.update(n=len(A), A=A.tolist(), lam=lam, lp=lp, lq=lq, prob=[], Eres=[], X6=[], eresnan=0)
    ok, out = _guard(rec, lambda: bct.resource_efficiency_bin(_arg(job, A), lamb))
    if ok:
        Eres, prob = out
        rec["prob"] = _qm(prob)
        if np.ndim(Eres) == 0:
            rec["eresnan"] = 1 if math.isnan(float(Eres)) else 0
        else:
            rec["Eres"] = _qm(Eres)
            rec["X6"] = _pow_enc(1.0 - lamb, Eres, 1e6) if lam == "ok" else []
    return rec


_EXEC = dict(findpaths=x_findpaths, cycprob=x_cycprob, breadth=x_breadth, rd=x_rd, si=x_si, pt=x_pt,
             rout=x_rout, diff=x_diff, res=x_res)


# -------------------------------------------------------------------- inputs
def mat(n, edges, und, val=lambda i, j: 1, none=0):
    A = [[none] * n for _ in range(n)]
    for (i, j) in edges:
        v = val(i, j)
        A[i][j] = v
        if und:
            A[j][i] = v
    return A


def variant(rng, family, p_plain=0.5):
    dt, lay = rc.draw_variant(rng, family, p_plain)
    return dict(dtype=dt, layout=lay)


def J(fn, kind, src, **kw):
    d = dict(fn=fn, kind=kind, src=src)
    d.update(kw)
    return d


def rand_edges(rng, n, p, und):
    if und:
        return [(i, j) for i in range(n) for j in range(i + 1, n) if rng.random() < p]
    return [(i, j) for i in range(n) for j in range(n) if i != j and rng.random() < p]


def layered(L, w=2):
    """L layers of w nodes, every node connected to every node of the next layer: 2^(d-1) walks
    between nodes d layers apart (the counts leave an integer type of b bits after b+1 layers)"""
    return L * w, [(l * w + a, (l + 1) * w + b) for l in range(L - 1) for a in range(w) for b in range(w)]


def model_pq_arrays(ctx, cfgname):
    """path-count arrays Pq of model graphs, computed by TLC from Paths!FindPathsL0 (GenPaths.tla)"""
    cache = os.path.join(core.VERIF, ".cache")
    os.makedirs(cache, exist_ok=True)
    path = os.path.join(cache, "x04_pq_%s.json" % cfgname)
    if not os.path.exists(path):
        tmp = path + ".%d.tmp" % os.getpid()
        r = ctx._tlc("GenPaths.tla", "GenPaths_%s.cfg" % cfgname, "gen_pq_" + cfgname,
                     env={"GEN_FILE": tmp}, workers=4, timeout=900)
        if "No error has been found" not in r["out"] or not os.path.exists(tmp):
            raise core.MachineryError("GenPaths %s failed: %s" % (cfgname, r["out"][-2000:]))
        os.replace(tmp, path)
    with open(path) as f:
        return json.load(f)


def findpaths_jobs(ctx, rng):
    jobs = []

    def fp(A, qmax, srcs, src, **kw):
        jobs.append(J("findpaths", "findpaths", src, A=A, qmax=qmax, srcs=srcs, **kw))
    for n in (2, 3, 4):
        graphs = inputs.model_graphs(ctx, "dir", n)
        for gi, e in enumerate(graphs):
            A = mat(n, e, False)
            fp(A, n, list(range(n)), "model-dir%d" % n)
            extra = 2 if n < 4 else (0 if ctx.quick and gi % 8 else 1)
            for _ in range(extra):           # source subsets, other qmax, weights, dtypes
                k = rng.randint(1, n)
                w = rng.random() < 0.3
                fp(mat(n, e, False, (lambda i, j: rng.choice([1, 2, 3])) if w else (lambda i, j: 1)),
                   rng.randint(1, n + 1), sorted(rng.sample(range(n), k)), "model-dir%d-opts" % n,
                   srcs_as=rng.choice(["array", "list"]),
                   **variant(rng, rc.DT_COUNT if w else rc.DT_BIN))
    g5 = inputs.model_graphs(ctx, "und", 5)
    for e in inputs.sample(rng, g5, 60 if ctx.quick else 400):
        arcs = rc.orient(rng, e) if rng.random() < 0.6 else [(i, j) for i, j in e] + [(j, i) for i, j in e]
        fp(mat(5, arcs, False), rng.choice([3, 5, 5, 6]), sorted(rng.sample(range(5), rng.randint(1, 5))),
           "model-und5-oriented", **variant(rng, rc.DT_BIN))
    for k in range(30 if ctx.quick else 250):
        n = rng.randint(6, 8)
        if k % 3 == 0:
            kind, n, e = rc.structured_support(rng, 6, 8)
            n = min(n, 8)
            e = [(i, j) for i, j in e if i < n and j < n]
            arcs = rc.orient(rng, e) if rng.random() < 0.5 else e + [(j, i) for i, j in e]
            src = "struct-" + kind
        else:
            arcs = rand_edges(rng, n, rng.choice([0.15, 0.25, 0.4]), False)
            src = "random"
        fp(mat(n, arcs, False), rng.choice([2, 3, n - 1, n, n]), sorted(rng.sample(range(n), rng.randint(1, n))),
           src, **variant(rng, rc.DT_BIN))
    return jobs


def cycprob_jobs(ctx, rng):
    jobs = []
    for cfg in ("dir3", "und4"):
        for item in model_pq_arrays(ctx, cfg):
            jobs.append(J("cycprob", "cycprob", "model-" + cfg, Pq=item["Pq"],
                          dtype=rng.choice(["float64", "float64", "int64", "float32"]),
                          layout=rng.choice(["C", "F"])))
    for _ in range(60 if ctx.quick else 400):     # any array of non-negative counts
        n, Q = rng.randint(1, 4), rng.randint(1, 5)
        hi = rng.choice([1, 3, 9])
        Pq = [[[rng.randint(0, hi) if rng.random() < 0.7 else 0 for _ in range(n)] for _ in range(n)]
              for _ in range(Q)]
        jobs.append(J("cycprob", "cycprob", "random-array", Pq=Pq, dtype=rng.choice(["float64", "int64"]),
                      layout="C"))
    return jobs


def bfs_jobs(ctx, rng):
    jobs = []

    def both(A, src, **kw):
        for base in ("breadthdist", "reachdist"):
            jobs.append(J(base, "rd", src, base=base, A=A, **kw))
    for n in (2, 3, 4):
        graphs = inputs.model_graphs(ctx, "dir", n)
        if n == 4 and ctx.quick:
            graphs = inputs.sample(rng, graphs, 700)
        for e in graphs:
            A = mat(n, e, False)
            srcs = range(n) if (n < 4 or not ctx.quick) else [rng.randrange(n)]
            for s in srcs:
                jobs.append(J("breadth", "breadth", "model-dir%d" % n, A=A, s=s))
            if n < 4 or rng.random() < 0.25:
                both(A, "model-dir%d" % n)
    for e in inputs.sample(rng, inputs.model_graphs(ctx, "und", 5), 100 if ctx.quick else 1024):
        A = mat(5, e, True)
        jobs.append(J("breadth", "breadth", "model-und5", A=A, s=rng.randrange(5), **variant(rng, rc.DT_BIN)))
        both(A, "model-und5", **variant(rng, rc.DT_BIN))
    for k in range(60 if ctx.quick else 400):
        if k % 2:
            kind, n, e = rc.structured_support(rng, 6, 40)
            src = "struct-" + kind
        else:
            n = rng.randint(6, 60)
            e = rand_edges(rng, n, rng.choice([1.2, 2.0, 3.5]) / n, True)
            src = "random"
        und = rng.random() < 0.4
        arcs = e + [(j, i) for i, j in e] if und else rc.orient(rng, e)
        val = (lambda i, j: rng.choice([1, 2, 5])) if rng.random() < 0.3 else (lambda i, j: 1)
        A = mat(n, arcs, False, val)
        if rng.random() < 0.15:                  # a self-connection or two
            for v in rng.sample(range(n), 2):
                A[v][v] = 1
        fam = rc.DT_BIN if all(x in (0, 1) for row in A for x in row) else rc.DT_COUNT
        jobs.append(J("breadth", "breadth", src, A=A, s=rng.randrange(n), **variant(rng, fam)))
        v = variant(rng, fam)
        if v["dtype"] == "uint8":                # matrix powers in the argument's dtype (c03.py TRAITS)
            v["dtype"] = "int32"
        both([[1 if x else 0 for x in row] for row in A] if rng.random() < 0.7 else A, src, **v)
    # walk counts beyond the argument's integer type: 2^(b) walks after b+1 layers of two nodes
    fam = [("int32", 34), ("float64", 34)] if ctx.quick else [("int32", 34), ("int64", 66), ("float64", 40),
                                                            ("float32", 30), ("int32", 20)]
    for dt, L in fam:
        n, e = layered(L)
        perm = list(range(n))
        if rng.random() < 0.5:
            rng.shuffle(perm)
        A = mat(n, [(perm[i], perm[j]) for i, j in e], False)
        both(A, "layered-%d" % L, dtype=dt, layout="C")
        jobs.append(J("breadth", "breadth", "layered-%d" % L, A=A, s=perm[0], dtype=dt, layout="C"))
    return jobs


def code_matrix(rng, n, edges, und, mode):
    K = [[-1] * n for _ in range(n)]
    for (i, j) in edges:
        v = rng.choice(CODES[mode])
        K[i][j] = v
        if und:
            K[j][i] = v
    return K


def fam_of(mode):
    return {"bin": rc.DT_BIN, "len": rc.DT_COUNT}.get(mode, rc.DT_FLOAT)


def comm_jobs(ctx, rng):
    """search_information, path_transitivity, rout_efficiency on one shared stream of inputs"""
    jobs = []
    def trio(K, mode, src, und, si=True, pt=True, rout=True):
        v = variant(rng, fam_of(mode))
        if v["dtype"] in ("float32", "bool", "uint8"):
            # real-valued outputs compared at 1e-6; bool/uint8 row sums and 1/x are the harness's
            # choice, not the routines' documented input: plain integers and floats only
            v["dtype"] = "int64" if mode in ("bin", "len") else "float64"
        if si:
            for mem in (0, 1):
                jobs.append(J("search_information[memory]" if mem else "search_information",
                              "si", src, K=K, mode=mode, mem=mem, **v))
        if pt and und:
            jobs.append(J("path_transitivity", "pt", src, K=K, mode=mode, **v))
        if rout:
            jobs.append(J("rout_efficiency", "rout", src, K=K, mode=mode, **v))
    for n in (3, 4):
        for e in inputs.model_graphs(ctx, "und", n):
            trio(code_matrix(rng, n, e, True, "bin"), "bin", "model-und%d" % n, True)
            m = rng.choice(["len", "inv", "log"])
            trio(code_matrix(rng, n, e, True, m), m, "model-und%d-w" % n, True)
    g5 = inputs.model_graphs(ctx, "und", 5)
    for e in inputs.sample(rng, g5, 120 if ctx.quick else 1024):
        m = rng.choice(["bin", "bin", "len", "inv", "log"])
        trio(code_matrix(rng, 5, e, True, m), m, "model-und5", True)
    d3 = inputs.model_graphs(ctx, "dir", 3)
    for e in d3:
        m = rng.choice(["bin", "len", "inv", "log"])
        trio(code_matrix(rng, 3, e, False, m), m, "model-dir3", False)
    for e in inputs.sample(rng, inputs.model_graphs(ctx, "dir", 4), 150 if ctx.quick else 1500):
        m = rng.choice(["bin", "bin", "len", "inv", "log"])
        trio(code_matrix(rng, 4, e, False, m), m, "model-dir4", False)
    for k in range(40 if ctx.quick else 300):
        if k % 2:
            kind, n, e = rc.structured_support(rng, 5, 7)
            src = "struct-" + kind
        else:
            n = rng.randint(5, 7)
            e = rand_edges(rng, n, rng.choice([0.3, 0.5, 0.7]), True)
            src = "random"
        und = rng.random() < 0.6
        arcs = e if und else rc.orient(rng, e)
        m = rng.choice(["bin", "len", "inv", "log"])
        trio(code_matrix(rng, n, arcs, und, m), m, src + ("-und" if und else "-dir"), und)
    return jobs


def eff_jobs(ctx, rng):
    jobs = []
    # diffusion_efficiency: exact on strongly connected inputs (the spec skips the others)
    for n in (2, 3):
        for e in inputs.model_graphs(ctx, "dir", n):
            w = rng.random() < 0.5
            jobs.append(J("diffusion_efficiency", "diff", "model-dir%d" % n,
                          A=mat(n, e, False, (lambda i, j: rng.choice([1, 2, 3])) if w else (lambda i, j: 1)),
                          **variant(rng, rc.DT_COUNT if w else rc.DT_BIN)))
    for e in inputs.sample(rng, inputs.model_graphs(ctx, "dir", 4), 250 if ctx.quick else 2000):
        jobs.append(J("diffusion_efficiency", "diff", "model-dir4", A=mat(4, e, False)))
    for n in (4, 5):
        for e in inputs.sample(rng, inputs.model_graphs(ctx, "und", n), 64 if ctx.quick else 600):
            w = rng.random() < 0.5
            jobs.append(J("diffusion_efficiency", "diff", "model-und%d" % n,
                          A=mat(n, e, True, (lambda i, j: rng.choice([1, 2, 3])) if w else (lambda i, j: 1))))
    # resource_efficiency_bin: connected undirected binary graphs (the spec skips the others)
    for n in (2, 3, 4, 5):
        graphs = inputs.model_graphs(ctx, "und", n)
        if n == 5:
            graphs = inputs.sample(rng, graphs, 200 if ctx.quick else 1024)
        for e in graphs:
            lp, lq = rng.choice(LAMBDAS)
            v = variant(rng, rc.DT_BIN)
            if v["dtype"] in ("bool", "uint8", "float32"):
                v["dtype"] = "int64"
            jobs.append(J("resource_efficiency_bin", "res", "model-und%d" % n, A=mat(n, e, True), lam="ok",
                          lp=lp, lq=lq, **v))
            r = rng.random()
            if r < 0.1:
                jobs.append(J("resource_efficiency_bin[nan]", "res", "model-und%d" % n, A=mat(n, e, True),
                              lam="nan"))
            elif r < 0.2:
                lp, lq = rng.choice(BAD_LAMBDAS)
                jobs.append(J("resource_efficiency_bin[bad lambda]", "res", "model-und%d" % n,
                              A=mat(n, e, True), lam="bad", lp=lp, lq=lq))
    for k in range(30 if ctx.quick else 200):
        kind, n, e = rc.structured_support(rng, 5, 6) if k % 2 else \
            ("random", 6, rand_edges(rng, 6, rng.choice([0.4, 0.6]), True))
        lp, lq = rng.choice(LAMBDAS)
        jobs.append(J("resource_efficiency_bin", "res", "struct-" + kind, A=mat(n, e, True), lam="ok",
                      lp=lp, lq=lq))
    return jobs


def build_jobs(ctx):
    rng = random.Random(ctx.seed)
    jobs = findpaths_jobs(ctx, rng) + cycprob_jobs(ctx, rng) + bfs_jobs(ctx, rng) + comm_jobs(ctx, rng) + \
        eff_jobs(ctx, rng)
    only = os.environ.get("VERIF_X04_ONLY")        # developer convenience (mutant runs), never set by `check`
    if only:
        jobs = [j for j in jobs if j["kind"] in only.split(",")]
    return jobs


# ------------------------------------------------------------------ models
QUICK_MODELS = [("MC_FindPaths.tla", "MC_FindPaths.cfg"), ("MC_Paths.tla", "MC_Paths_dir4.cfg"),
                ("MC_Paths.tla", "MC_Paths_und5.cfg"), ("MC_Paths.tla", "MC_Paths_dir3.cfg"),
                ("MC_Paths.tla", "MC_Paths_und4.cfg"), ("MC_Paths.tla", "MC_Paths_dir3p.cfg")]
THOROUGH_MODELS = [("MC_FindPaths.tla", "MC_FindPaths_thorough.cfg"), ("MC_FindPaths.tla", "MC_FindPaths_live.cfg"),
                   ("MC_Paths.tla", "MC_Paths_dir4p.cfg"), ("MC_Paths.tla", "MC_Paths_dir4l.cfg")] + QUICK_MODELS[1:]


def run_models(ctx, models, par):
    thunks = [(lambda m=m: ctx.mc(m[0], m[1], workers=6 if "FindPaths" in m[0] else 3)) for m in models]
    ctx.parallel(thunks, width=par)


def validate_parallel(ctx, recs, parts, par):
    if len(recs) < 600:
        return ctx.validate(TLA, CFG, recs)
    size = (len(recs) + parts - 1) // parts
    thunks = [(lambda k=k: ctx.validate(TLA, CFG, recs[k * size:(k + 1) * size], tag="Trace_Paths_p%d" % k,
                                        chunk=size + 1))
              for k in range(parts) if recs[k * size:(k + 1) * size]]
    out = ctx.parallel(thunks, width=par)
    return [v for part in out for v in part]


def what(job, rec, clause):
    keep = {k: v for k, v in rec.items() if k not in ("fn", "kind")}
    s = json.dumps(keep)
    return "src=%s dtype=%s layout=%s %s" % (job.get("src"), job.get("dtype", "float64"),
                                             job.get("layout", "C"), s if len(s) < 1500 else s[:1500] + "...")


def run(ctx):
    result = {}

    def models():
        try:
            run_models(ctx, QUICK_MODELS if ctx.quick else THOROUGH_MODELS, par=3 if ctx.quick else 4)
        except Exception as e:
            result["err"] = e
    jobs = build_jobs(ctx)              # (model inputs come from TLC: before the model threads start)
    th = threading.Thread(target=models)
    th.start()
    try:
        recs = pool.run_jobs(__name__, jobs, procs=8)
        # interleave the kinds so that the parts cost about the same
        order = sorted(range(len(recs)), key=lambda k: (k % 97, k))
        v0 = validate_parallel(ctx, [recs[k] for k in order], parts=6 if ctx.quick else 16,
                               par=3 if ctx.quick else 4)
        verdicts = [None] * len(recs)
        for k, v in zip(order, v0):
            verdicts[k] = v
    finally:
        th.join()
    if "err" in result:
        raise result["err"]
    ctx.judge(jobs, recs, verdicts, what=what)
    per_fn, seen, clauses = {}, set(), {}
    for j, r, v in zip(jobs, recs, verdicts):
        per_fn[r["fn"]] = per_fn.get(r["fn"], 0) + 1
        clauses[v[0]] = clauses.get(v[0], 0) + 1
        body = r.get("A") or r.get("Lm") or r.get("Pq")
        cells = sum(1 for row in body for x in (row if not isinstance(row[0], list) else sum(row, []))
                    if x not in (0, encode.INF)) if body else 0
        if not v[0].startswith("skip") and cells >= 2:
            seen.add((r["fn"], json.dumps(body), json.dumps([r.get(k) for k in ("s", "srcs", "qmax", "mode",
                                                                               "lp", "lq")])))
    ctx.nontrivial = len(seen)
    ctx.exhaustive = True
    ctx.extra["records_per_function"] = per_fn
    ctx.extra["verdict_counts"] = clauses
    ctx.rule = ("findpaths: every digraph on 2..4 nodes with all nodes as sources and qmax = n (+ source subsets, "
                "other qmax, discarded weights), oriented 5-node graphs, random / structured digraphs on 6..8 "
                "nodes; cycprob: TLC-computed path-count arrays of every digraph on 3 and graph on 4 nodes, "
                "arbitrary count arrays; breadth: every digraph on 2..4 nodes (%s), 5-node graphs, random / "
                "structured graphs on 6..60 nodes; breadthdist / reachdist: the same families, layered digraphs "
                "whose walk counts exceed the argument's integer type; search_information (4 length encodings x "
                "memory), path_transitivity, rout_efficiency: every graph on 3..4 nodes, sampled 5-node graphs, "
                "every digraph on 3 nodes, sampled digraphs on 4, random / structured on 5..7; "
                "diffusion_efficiency: every digraph on 2..3 nodes, sampled n = 4, weighted graphs n = 4..5; "
                "resource_efficiency_bin: every graph on 2..4 nodes, %s 5-node graphs, structured n <= 6; "
                "non-trivial = distinct (function, input, options) judged on a network with >= 2 connections" % (
                    "quick: 700 sampled 4-node digraphs x one source" if ctx.quick else "every source",
                    "200 sampled" if ctx.quick else "all"))
    for k in (0, len(jobs) // 2, len(jobs) - 1):
        ctx.add_sample("input", dict(job=jobs[k], record=recs[k], verdict=list(verdicts[k])))
    ctx.assumptions += [
        "TLC evaluates the L0 definitions of spec/Paths.tla (and of Distance.tla / RandomWalk.tla they build on) correctly",
        "observed reals compared at 10^-6 (tolerance 2-3 units); search information through 2^SI at 10^-3, "
        "resource efficiency through (1-lambda)^Eres at 10^-6 (monotone re-encodings computed by the harness)",
        "findpaths: inputs without self-connections, distinct sources, at least one connection leaving a source",
        "shortest paths need not be unique: search_information / path_transitivity are judged against the set "
        "of all minimum-length paths (any of them is accepted)",
        "search_information on a network with a node without outgoing connections, path_transitivity on "
        "asymmetric input, resource_efficiency_bin on disconnected / directed / weighted input, "
        "diffusion_efficiency on input that is not strongly connected: outside the documented domain, skipped",
        "values on the diagonal of search_information / path_transitivity and values of unreachable pairs of "
        "path_transitivity are not judged",
    ]
    return ctx.finish()


def replay(ctx, rp):
    j = rp["job"]
    recs = pool.run_jobs(__name__, [j])
    verdicts = ctx.validate(TLA, CFG, recs)
    core.log("replay verdict:", verdicts[0], what(j, recs[0], verdicts[0][0]))
    ctx.judge([j], recs, verdicts, what=what)
    return ctx.finish()
