"""C07 - modularity optimisers never return a partition worse than their start.
Same models, behaviours and traces as C02 (props/c02.py); Trace_Louvain.tla judges the C07
clause list: every accepted move strictly raises the exact Q (hook clause), Q(out) >= Q(start),
hierarchy strictly increasing, feeding the output back never lowers Q."""
from . import c02

PROP = "C07"


def exec_job(job):
    return c02.exec_job(job)


def run(ctx):
    return c02.run_family(ctx, PROP)


def replay(ctx, rp):
    return c02.replay(ctx, rp)
