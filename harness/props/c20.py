"""C20 - synthetic generators deliver the requested size, edge count and symmetry.

mc:        spec/RandImpl.tla, RingLatticeImpl.tla, DegreesFixedImpl.tla (L2 machines of the
           intended algorithms, every random draw a nondeterministic action parameter): L2 =>
           output contracts of spec/Generators.tla for all (N, K) / all graphical degree pairs
           and every draw.
spec->code: behaviours of the same machines (exhaustive for the smallest N, TLC -simulate
           beyond) as draw scripts forced onto makerandCIJ_dir/_und, makeringlatticeCIJ and
           makerandCIJdegreesfixed through a scripted RandomState.
code->spec: seeded real runs of all seven generators (draws recorded); spec/Trace_Generators.tla
           judges every returned value and replays the L2 operator forms on the recorded draws.
scale:     a few seeded calls of every generator in the OTHER size regimes (scale_jobs): 130..450
           nodes (256 / 512 for the power-of-two generators), K from tiny over 2^15, 2^16 to beyond
           10^5 and to the full matrix, degree sequences of 130..330 nodes (hub degrees > 127, stub
           counts > 2^15).  The whole returned matrix goes to TLC, which judges it by the same
           clauses (count, diagonal, symmetry, 0/1, row/column sums, band occupancy).
"""
import random
import time

import numpy as np

from .. import core, encode, pool, rng as rngmod

PROP = "C20"
MOD = "harness.props.c20"
TRACE = ("Trace_Generators.tla", "Trace_Generators.cfg")
SCRIPTED = ("makerandCIJ_dir", "makerandCIJ_und", "makeringlatticeCIJ", "makerandCIJdegreesfixed")


# ------------------------------------------------------------------ random streams
class GenScriptedRNG(rngmod.ScriptedRNG):
    """ScriptedRNG that (i) refuses a scripted permutation of the wrong length (the run goes
    off-script onto the seeded fallback stream instead of indexing out of range) and
    (ii) keeps the served permutations / randint values (1-based) for the record."""

    def __init__(self, script, fallback_seed=12345):
        super().__init__(script, fallback_seed)
        self.perms = []
        self.ints = []

    def permutation(self, x):
        m = int(x) if np.isscalar(x) else len(x)
        if not self.off and self.pos < len(self.script):
            it = self.script[self.pos]
            if it[0] == "perm" and len(it[1]) != m:
                self.off = "permutation(%d) requested, script holds %d entries" % (m, len(it[1]))
        p = super().permutation(x)
        if np.isscalar(x):
            self.perms.append([int(v) + 1 for v in np.asarray(p).ravel()])
        return p

    def randint(self, low, high=None, size=None, dtype=int):
        v = super().randint(low, high, size)
        if size is None:
            self.ints.append(int(v) + 1)
        return v


class DrawLogRNG(np.random.RandomState):
    """A real MT19937 stream that records permutations and scalar randint draws (1-based)."""

    def __init__(self, seed):
        super().__init__(seed)
        self.perms = []
        self.ints = []

    def permutation(self, x):
        p = super().permutation(x)
        if np.isscalar(x):
            self.perms.append([int(v) + 1 for v in np.asarray(p).ravel()])
        return p

    def randint(self, low, high=None, size=None, dtype=int):
        v = super().randint(low, high, size)
        if size is None:
            self.ints.append(int(v) + 1)
        return v

    def status(self):
        return "none"


# ------------------------------------------------------------------ one real call
def exec_job(job):
    import bct
    fn = job["fn"]
    rec = dict(fn=fn, n=int(job.get("n", 0)), k=int(job.get("k", -1)), A=[], raised="", malformed="",
               rep_k=-1, mx_lvl=int(job.get("mx_lvl", 0)), sz_cl=int(job.get("sz_cl", 0)),
               inv=[int(x) for x in job.get("inv", [])], outv=[int(x) for x in job.get("outv", [])],
               perm=[], draws=[], expect=job.get("expect") or [], script_status="none", perm_len=0)
    if job.get("script") is not None:
        r = GenScriptedRNG(job["script"], fallback_seed=job.get("seed", 1))
    else:
        r = DrawLogRNG(job["seed"])
    f = getattr(bct, fn)
    rep = None
    # how the caller types the integer parameters (job['ntype'], drawn): Python int or a numpy
    # integer (n = len(...) of an array, K = a count computed with numpy); same values
    # (seed round 7) also the narrow types a size read from a .mat / .npy file or an int16 table has:
    # int8 / uint8 / int16 / uint16 where the value fits, n and K typed independently (products such
    # as n * (n - 1) wrap in the narrow type although n and the result fit comfortably)
    TY = {"int": int, "np64": np.int64, "np32": np.int32, "np16": np.int16, "npu16": np.uint16,
          "np8": np.int8, "npu8": np.uint8}

    def typed(name):
        ty = TY[job.get(name, "int")]
        def conv(v):
            if ty in (int, np.int64, np.int32):
                return ty(v)
            ii = np.iinfo(ty)
            return ty(v) if ii.min <= int(v) <= ii.max else int(v)
        return conv
    I = typed("ntype")
    IK = typed("ktype") if job.get("ktype") else I
    scale = bool(job.get("scale"))

    def degvec(v):
        """a degree sequence as the caller holds it: int64 / int32 / float64 (column sums of a
        float matrix), contiguous or every second element of a larger vector; same values"""
        a = np.array(v, dtype=job.get("dtype", "int64"))
        if [int(x) for x in a] != [int(x) for x in v]:
            raise core.MachineryError("degree vector does not fit dtype %s" % job.get("dtype"))
        if job.get("layout") == "stride":
            big = np.zeros(2 * len(a), dtype=a.dtype)
            big[::2] = a
            return big[::2]
        return a
    try:
        if fn in ("makerandCIJ_dir", "makerandCIJ_und", "makeringlatticeCIJ"):
            A = f(I(job["n"]), IK(job["k"]), seed=r)
        elif fn == "maketoeplitzCIJ":
            A = f(I(job["n"]), IK(job["k"]), job["s"], seed=r)
        elif fn == "makeevenCIJ":
            A = f(I(job["n"]), I(job["k"]), I(job["sz_cl"]), seed=r)
        elif fn == "makefractalCIJ":
            A, rep = f(I(job["mx_lvl"]), job["E"], I(job["sz_cl"]), seed=r)
        elif fn == "makerandCIJdegreesfixed":
            A = f(degvec(job["inv"]), degvec(job["outv"]), seed=r)
        else:
            raise core.MachineryError("unknown generator " + fn)
    except core.MachineryError:
        raise
    except Exception as e:
        rec["raised"] = encode.exc_name(e)
        A = None
    rec["script_status"] = r.status()
    if len(r.perms) == 1:
        rec["perm_len"] = len(r.perms[0])
        # scale regime: a permutation of 10^4..10^5 cells is not kept (TLC replays the operator
        # forms only where the draw script is short: outer band of a lattice, stub permutation)
        rec["perm"] = r.perms[0] if not (scale and len(r.perms[0]) > 20000) else []
    rec["draws"] = list(r.ints)
    if A is None:
        return rec
    try:
        A = np.asarray(A)
        if A.ndim != 2:
            raise ValueError("not a matrix: shape %r" % (A.shape,))
        rec["A"] = encode.mat_int(A)
        if fn == "makefractalCIJ":
            rec["n"] = int(A.shape[0])
            rec["rep_k"] = encode.e_int(rep)
    except (ValueError, TypeError) as e:
        rec["malformed"] = str(e)[:80]
        rec["A"] = []
    return rec


# ------------------------------------------------------------------ spec -> code
GEN_EXHAUSTIVE = [  # (tla, quick cfg, thorough cfg): every behaviour of the machine
    ("MC_Rand.tla", "Gen_Rand_dir3.cfg", "Gen_Rand_dir3.cfg"),
    ("MC_Rand.tla", "Gen_Rand_und4.cfg", "Gen_Rand_und4.cfg"),
    ("MC_RingLattice.tla", "Gen_RingLattice_n3.cfg", "Gen_RingLattice_n3.cfg"),
    ("MC_DegreesFixed.tla", "Gen_DegreesFixed_n3k3.cfg", "Gen_DegreesFixed_n3k4.cfg"),
]
GEN_SIMULATE = [  # (tla, cfg, behaviours per worker quick, thorough, thorough only)
    ("MC_Rand.tla", "Gen_Rand_dir5.cfg", 50, 600, False),
    ("MC_Rand.tla", "Gen_Rand_und6.cfg", 50, 600, False),
    ("MC_RingLattice.tla", "Gen_RingLattice_n4.cfg", 60, 600, False),
    ("MC_RingLattice.tla", "Gen_RingLattice_n5.cfg", 60, 600, False),
    ("MC_RingLattice.tla", "Gen_RingLattice_n6.cfg", 40, 600, False),
    ("MC_RingLattice.tla", "Gen_RingLattice_n7.cfg", 0, 400, True),
    ("MC_DegreesFixed.tla", "Gen_DegreesFixed_n3.cfg", 100, 800, False),
    ("MC_DegreesFixed.tla", "Gen_DegreesFixed_n4.cfg", 150, 1500, False),
    ("MC_DegreesFixed.tla", "Gen_DegreesFixed_n5.cfg", 40, 1000, False),
]


def item_to_job(it):
    fn = it["fn"]
    job = dict(fn=fn, n=it["n"], k=it["k"], src="model", expect=it.get("expect") or [], seed=1)
    if fn == "makerandCIJdegreesfixed":
        job["inv"] = it["inv"]
        job["outv"] = it["outv"]
        job["script"] = [["perm", it["perm"]]] + [["k", d - 1] for d in it["draws"]]
        job["model_stuck"] = it["stuck"]
    elif fn == "makeringlatticeCIJ":
        job["script"] = [["perm", it["perm"]]] if it["perm"] else []
    else:
        job["script"] = [["perm", it["perm"]]]
    return job


def behaviour_jobs(ctx):
    thunks = []
    for tla, cq, ct in GEN_EXHAUSTIVE:
        cfg = cq if ctx.quick else ct
        thunks.append(lambda tla=tla, cfg=cfg: ctx.gen(tla, cfg, tag="all_" + cfg[4:-4], workers=4, timeout=900))
    sims = [g for g in GEN_SIMULATE if not (ctx.quick and g[4])]
    for tla, cfg, nq, nt, _ in sims:
        num = nq if ctx.quick else nt
        thunks.append(lambda tla=tla, cfg=cfg, num=num: ctx.gen(
            tla, cfg, tag="sim_" + cfg[4:-4], workers=4, timeout=1800,
            extra=["-simulate", "num=%d" % num, "-depth", "400", "-seed", str(ctx.seed + 11)]))
    results = ctx.parallel(thunks, width=4)
    jobs, seen = [], set()
    for items in results:
        for it in items:
            key = repr(sorted(it.items()))
            if key in seen:
                continue
            seen.add(key)
            jobs.append(item_to_job(it))
    return jobs


# ------------------------------------------------------------------ code -> spec
def seeded_jobs(ctx):
    rng = random.Random(ctx.seed * 7919 + 20)
    q = ctx.quick
    jobs = []

    def add(**kw):
        kw.setdefault("seed", rng.randrange(2 ** 31))
        kw.setdefault("src", "seeded")
        # integer parameters typed as Python ints (half) or numpy integers; degree sequences as
        # int64 / int32 / float64 vectors, contiguous or strided (makerandCIJdegreesfixed only)
        kw["ntype"] = rng.choice(["int", "int", "np64", "np32"])
        if kw["fn"] in ("makerandCIJ_dir", "makerandCIJ_und", "makeringlatticeCIJ", "maketoeplitzCIJ") \
                and rng.random() < 0.3:
            # narrow size types (exec_job): the unchanged generators give the very same network for
            # them (sampled 400 combinations); makeevenCIJ is left out - it mixes K into unsigned
            # arithmetic and is not claimed for such K
            kw["ntype"] = rng.choice(["np16", "npu16", "np8", "npu8"])
            kw["ktype"] = rng.choice(["int", "int", "np32"])      # K stays wide: see DESIGN 0.4 (false alarm of the thorough tier)
        if kw["fn"] == "makerandCIJdegreesfixed":
            kw["dtype"] = rng.choice(["int64", "int64", "int32", "float64"])
            kw["layout"] = rng.choice(["C", "C", "stride"])
        jobs.append(kw)

    # uniform random graphs: every feasible K for small n, random K beyond
    for n in range(1, 7 if q else 8):
        for und in (0, 1):
            m = n * (n - 1) // (2 if und else 1)
            for k in range(m + 1):
                add(fn="makerandCIJ_und" if und else "makerandCIJ_dir", n=n, k=k)
    for _ in range(120 if q else 2500):
        n = rng.randint(7, 14)
        und = rng.random() < 0.5
        m = n * (n - 1) // (2 if und else 1)
        add(fn="makerandCIJ_und" if und else "makerandCIJ_dir", n=n, k=rng.choice([0, 1, m - 1, m, rng.randint(0, m)]))
    # narrow-typed sizes at the node counts where products of the size wrap in its own type (seed
    # round 7): int8 from n = 12, uint8 from 17, int16 from 182, uint16 from 257; K anywhere in 0..full
    for _ in range(48 if q else 150):      # (records of up to 300 x 300 cells: kept few)
        ty = rng.choice(["np8", "npu8", "np8", "npu8", "np16", "npu16"])
        n = {"np8": rng.randint(12, 127), "npu8": rng.randint(17, 255),
             "np16": rng.randint(182, 230), "npu16": rng.randint(257, 300)}[ty]
        fn = rng.choice(["makerandCIJ_und", "makerandCIJ_dir", "makeringlatticeCIJ"])
        m = n * (n - 1) // (2 if fn == "makerandCIJ_und" else 1)
        add(fn=fn, n=n, k=rng.choice([rng.randint(0, m), rng.randint(m // 2, m), m]), src="seeded-narrow")
        jobs[-1]["ntype"] = ty
        jobs[-1]["ktype"] = rng.choice(["int", "np32"])
    # ring lattices: every feasible K for n <= 9 (12), random beyond
    for n in range(1, 10 if q else 13):
        for k in range(n * (n - 1) + 1):
            for rep in range(1 if n > 4 else 3):
                add(fn="makeringlatticeCIJ", n=n, k=k)
    for _ in range(100 if q else 2000):
        n = rng.randint(10, 16)
        add(fn="makeringlatticeCIJ", n=n, k=rng.randint(0, n * (n - 1)))
    # toeplitz: resolvable parameters (moderate density); contracts only
    for _ in range(150 if q else 2500):
        n = rng.randint(3, 12)
        m = n * (n - 1)
        add(fn="maketoeplitzCIJ", n=n, k=rng.choice([0, 1, rng.randint(0, max(1, int(0.45 * m))),
                                                     rng.randint(0, max(1, int(0.45 * m)))]),
            s=rng.choice([0.7, 1.0, 1, 1.5, 2, 2.5, 4.0]))
    # even: n a power of two, cluster size 2**sz_cl <= n, K from the cluster count up to full
    for n in ([4, 8, 16] if q else [4, 8, 16, 32]):
        lv = n.bit_length() - 1
        for sz in range(1, lv + 1):
            lo, hi = n * (2 ** sz - 1), n * (n - 1)
            ks = set([lo, hi, min(hi, lo + 1), max(lo, hi - 1)])
            if n == 4:
                ks |= set(range(lo, hi + 1))
            for _ in range(12 if q else 120):
                ks.add(rng.randint(lo, hi))
            for k in sorted(ks):
                add(fn="makeevenCIJ", n=n, k=k, sz_cl=sz)
    # fractal: N = 2**mx_lvl in {4, 8, 16}
    for lvl in ([2, 3, 4] if q else [2, 3, 4, 5]):
        for sz in range(1, lvl + 2):
            for E in (1, 1.5, 2, 3, 4.5):
                for _ in range(4 if q else 40):
                    add(fn="makefractalCIJ", mx_lvl=lvl, E=E, sz_cl=sz)
    # degree sequences of random digraphs (graphical by construction), larger n
    for t in range(250 if q else 4000):
        n = rng.randint(5, 10)
        p = rng.choice([0.1, 0.25, 0.5, 0.75, 0.95])
        G = np.array([[1 if (i != j and rng.random() < p) else 0 for j in range(n)] for i in range(n)])
        add(fn="makerandCIJdegreesfixed", n=n, k=int(G.sum()),
            inv=[int(x) for x in G.sum(axis=0)], outv=[int(x) for x in G.sum(axis=1)])
    # degree sequences of STRUCTURED digraphs (graphical by construction): regular (every degree
    # equal: directed cycles, circulants), complete (all n-1: no freedom at all), stars (one hub),
    # empty, disjoint cliques of equal size, isolated nodes among connected ones, in != out
    for t in range(120 if q else 2000):
        n = rng.randint(3, 10)
        kind = rng.choice(["circulant", "complete", "star-out", "star-in", "empty", "cliques", "dag", "isolated+"])
        G = np.zeros((n, n), dtype=int)
        if kind == "circulant":
            for off in rng.sample(range(1, n), rng.randint(1, n - 1)):
                for i in range(n):
                    G[i, (i + off) % n] = 1
        elif kind == "complete":
            G = 1 - np.eye(n, dtype=int)
        elif kind in ("star-out", "star-in"):
            G[0, 1:] = 1
            if rng.random() < 0.5:
                G[1:, 0] = 1
            if kind == "star-in":
                G = G.T.copy()
        elif kind == "cliques":
            m = rng.choice([2, 3])
            for c in range(n // m):
                G[c * m:(c + 1) * m, c * m:(c + 1) * m] = 1
            np.fill_diagonal(G, 0)
        elif kind == "dag":
            G = np.triu(np.ones((n, n), dtype=int), 1)
        elif kind == "isolated+":
            m = rng.randint(2, n - 1)
            G[:m, :m] = np.array([[1 if (i != j and rng.random() < 0.6) else 0 for j in range(m)] for i in range(m)])
        perm = list(range(n))
        rng.shuffle(perm)
        G = G[np.ix_(perm, perm)]
        add(fn="makerandCIJdegreesfixed", n=n, k=int(G.sum()), src="seeded-struct-" + kind,
            inv=[int(x) for x in G.sum(axis=0)], outv=[int(x) for x in G.sum(axis=1)])
    return jobs


# ------------------------------------------------------------------ code -> spec, scale regime
def scale_jobs(ctx):
    """A handful of calls of EVERY generator in the size regimes the small-input families never
    reach.  The regimes are those at which a narrow index / counter / accumulator type or a
    tolerance in place of an exact comparison would first show:
      node counts   > 127 (int8 indices), n*n > 2^15 (n >= 182) and > 2^16 (n >= 257) flat cell
                    indices, n(n-1) >= 10^5 (n >= 331); 256 and 512 for the power-of-two generators
      connections K tiny (0..3), a few thousand (> 2048: float16 integers end), just above 2^15 and
                    2^16, 10^5..2*10^5 (relative tolerances of 1e-5 reach 1), full or nearly full
      degrees       sequences of 130..330 nodes with hub degrees > 127 / > 255 and stub counts
                    (sum of degrees) > 2^15; vectors typed uint8 / int16 where the values fit.
    Rejection sampling (maketoeplitzCIJ) gets parameters for which a draw hits K exactly with
    probability about 1/500 or better (flat or slowly decaying templates below the density at
    which entries would exceed 1), i.e. seconds."""
    rng = random.Random(ctx.seed * 104729 + 2020)
    q = ctx.quick
    jobs = []

    def add(regime, **kw):
        kw.setdefault("seed", rng.randrange(2 ** 31))
        kw["src"] = "scale-" + regime
        kw["scale"] = 1
        kw["ntype"] = rng.choice(["int", "int", "np64", "np32"])
        if kw["fn"] in ("makerandCIJ_dir", "makerandCIJ_und", "makeringlatticeCIJ", "maketoeplitzCIJ") \
                and rng.random() < 0.3:
            # narrow size types (exec_job): the unchanged generators give the very same network for
            # them (sampled 400 combinations); makeevenCIJ is left out - it mixes K into unsigned
            # arithmetic and is not claimed for such K
            kw["ntype"] = rng.choice(["np16", "npu16", "np8", "npu8"])
            kw["ktype"] = rng.choice(["int", "int", "np32"])      # K stays wide: see DESIGN 0.4 (false alarm of the thorough tier)
        if kw["fn"] == "makerandCIJdegreesfixed":
            top = max(kw["inv"] + kw["outv"] + [0])
            kw["dtype"] = rng.choice(["int64", "int32", "float64", "int16"] + (["uint8"] if top <= 255 else []))
            kw["layout"] = rng.choice(["C", "C", "stride"])
        jobs.append(kw)

    def node_counts():
        """one node count per size regime"""
        return [rng.randint(130, 181), rng.randint(182, 256), rng.randint(257, 330), rng.randint(331, 450)]

    def k_regimes(m, lo=0):
        """connection counts per regime for a generator that admits lo..m connections"""
        d = {"tiny": lo + rng.randint(0, 3), "thousands": rng.randint(2049, 6000),
             "2^15": rng.randint(32768, 33300), "2^16": rng.randint(65536, 66100),
             "1e5": rng.randint(100000, 100000 + max(0, min(m - 100000, 60000))),
             "2e5": rng.randint(200000, 200000 + max(0, min(m - 200000, 20000))),
             "full": m - rng.randint(0, 2), "mid": rng.randint(lo + (m - lo) // 4, lo + 3 * (m - lo) // 4)}
        return {r: k for r, k in d.items() if lo <= k <= m}

    def pick(d, prefer):
        """the preferred regime if this size admits it, else a drawn one"""
        r = prefer if prefer in d else rng.choice(sorted(d))
        return r, d[r]

    reps = 1 if q else 4
    for _ in range(reps):
        # --- uniform random graphs and ring lattices: one call per node-count regime, K in the
        # regime that this size newly admits, plus one drawn regime
        for fn in ("makerandCIJ_dir", "makerandCIJ_und", "makeringlatticeCIJ"):
            both = rng.randrange(4)      # quick tier: the second, drawn regime at one of the four sizes only
            for t, (n, prefer) in enumerate(zip(node_counts(), ["tiny", "2^15", "2^16", "1e5"])):
                m = n * (n - 1) // (2 if fn == "makerandCIJ_und" else 1)
                d = k_regimes(m)
                picks = [pick(d, prefer), pick(d, rng.choice(["full", "mid", "thousands", "2e5", "1e5"]))]
                for reg, k in (picks if (not q or t == both) else picks[:1]):
                    if fn == "makeringlatticeCIJ" and rng.random() < 0.5:
                        # K on a band boundary (nothing to remove), one more (a new band for a single
                        # connection), one less (a single removal)
                        k = max(0, min(m, 2 * n * max(1, k // (2 * n)) + rng.choice([-1, 0, 1])))
                    add(reg, fn=fn, n=n, k=k)
        # --- ring lattice, K one below / on / one above a band boundary beyond 10^5 (K within 1e-5 K of
        # the threshold at which the fill loop stops)
        n = rng.randint(331, 450)
        b = 2 * n * rng.randint(100000 // (2 * n) + 1, (n - 1) // 2 - 1)
        for dk in (-1, 0, 1):
            add("band-boundary%+d" % dk, fn="makeringlatticeCIJ", n=n, k=b + dk)
        # --- toeplitz: (template width s, largest density for which no template entry exceeds 1)
        for n, prefer in zip(node_counts() + [rng.randint(331, 450) for _ in range(4)] + [rng.randint(449, 450)],
                             ["tiny", "2^15", "2^16", "1e5", "1e5", "1e5", "1e5", "1e5", "2e5"]):
            m = n * (n - 1)
            s, dens = rng.choice([(float(n), 0.7), (2.0 * n, 0.8), (1000.0, 0.8), (1e6, 0.995), (n / 2.0, 0.45)])
            d = k_regimes(int(dens * m))
            if prefer not in d:
                s, dens = 1e6, 0.995
                d = k_regimes(int(dens * m))
            reg, k = pick(d, prefer)
            add(reg, fn="maketoeplitzCIJ", n=n, k=k, s=s)
        # --- hierarchical generators: 256 nodes (512: K beyond 10^5)
        for n, prefer in [(256, "tiny"), (256, "2^15"), (256, "full"), (512, "1e5"), (512, rng.choice(["2e5", "2^16", "full"]))]:
            lv = n.bit_length() - 1
            sz = rng.randint(1, lv)
            reg, k = pick(k_regimes(n * (n - 1), lo=n * (2 ** sz - 1)), prefer)
            add(reg, fn="makeevenCIJ", n=n, k=k, sz_cl=sz)
        for lvl, E in [(8, 1), (8, rng.choice([1.5, 2, 3])), (9, 1), (9, rng.choice([1.2, 1.5, 2]))]:
            add("n=%d" % 2 ** lvl, fn="makefractalCIJ", mx_lvl=lvl, E=E, sz_cl=rng.randint(1, lvl))
        # --- degree sequences (graphical by construction) of digraphs with 130+ nodes
        kinds = ["sparse", "medium", "sparse-large", "stubs>2^15", "dense", "star", "hub+random", "circulant"]
        if not q:
            kinds += ["complete", "two-hubs"]
        for kind in kinds:
            nprng = np.random.RandomState(rng.randrange(2 ** 31))
            n = {"sparse": rng.randint(130, 181), "medium": rng.randint(182, 256), "sparse-large": rng.randint(257, 330),
                 "stubs>2^15": rng.randint(290, 330), "complete": rng.randint(130, 140),
                 "dense": rng.randint(130, 170)}.get(kind, rng.randint(130, 300))
            G = np.zeros((n, n), dtype=int)
            if kind in ("sparse", "medium", "sparse-large", "stubs>2^15", "dense", "hub+random"):
                p = {"sparse": 0.05, "medium": 0.25, "sparse-large": 0.02, "stubs>2^15": 0.42, "dense": 0.93,
                     "hub+random": 0.03}[kind]
                G = (nprng.random_sample((n, n)) < p).astype(int)
            if kind in ("star", "hub+random", "two-hubs"):
                for h in ((0,) if kind != "two-hubs" else (0, 1)):
                    G[h, :] = 1
                    if rng.random() < 0.6:
                        G[:, h] = 1
            elif kind == "circulant":
                for off in rng.sample(range(1, n), rng.randint(1, 6)):
                    for i in range(n):
                        G[i, (i + off) % n] = 1
            elif kind == "complete":
                G[:, :] = 1
            np.fill_diagonal(G, 0)
            perm = nprng.permutation(n)
            G = G[np.ix_(perm, perm)]
            add(kind, fn="makerandCIJdegreesfixed", n=n, k=int(G.sum()),
                inv=[int(x) for x in G.sum(axis=0)], outv=[int(x) for x in G.sum(axis=1)])
    # the slow calls (rejection sampling, dense stub matching) first: better packing in the pool
    jobs.sort(key=lambda j: 0 if j["fn"] == "maketoeplitzCIJ" else 1 if j["fn"] == "makerandCIJdegreesfixed" else 2)
    return jobs


def nontrivial_key(job, rec):
    """distinct non-trivial case: a call that returned and whose outcome depended on a draw."""
    if rec.get("timeout") or rec["raised"] or rec["malformed"]:
        return None
    fn = rec["fn"]
    n, k = rec["n"], rec["k"]
    if fn == "makerandCIJ_dir" and not 0 < k < n * (n - 1):
        return None
    if fn == "makerandCIJ_und" and not 0 < 2 * k < n * (n - 1):
        return None
    if fn == "makeringlatticeCIJ" and not rec["perm"]:
        return None          # K on a band boundary: nothing was removed
    if fn == "makerandCIJdegreesfixed" and not rec["draws"]:
        return None          # no repair switch happened
    if fn == "makeevenCIJ" and not rec.get("perm_len", len(rec["perm"])):
        return None
    draws = job.get("script") if job.get("script") is not None else job.get("seed")
    return (fn, n, k, str(job.get("inv")), str(job.get("outv")), job.get("mx_lvl"), job.get("sz_cl"),
            job.get("E"), job.get("s"), str(draws))


SCALE_CHUNK = 8     # scale-regime records per TLC run


MC_QUICK = [("MC_Rand.tla", "MC_Rand_dir4.cfg"), ("MC_Rand.tla", "MC_Rand_und5.cfg"),
            ("MC_RingLattice.tla", "MC_RingLattice_n3.cfg"), ("MC_RingLattice.tla", "MC_RingLattice_n4.cfg"),
            ("MC_RingLattice.tla", "MC_RingLattice_n5.cfg"),
            ("MC_DegreesFixed.tla", "MC_DegreesFixed_n3.cfg"), ("MC_DegreesFixed.tla", "MC_DegreesFixed_n4k5.cfg")]
MC_THOROUGH = MC_QUICK + [("MC_Rand.tla", "MC_Rand_und6.cfg"), ("MC_Rand.tla", "MC_Rand_dir5k8.cfg"),
                          ("MC_RingLattice.tla", "MC_RingLattice_n2.cfg"),
                          ("MC_RingLattice.tla", "MC_RingLattice_n6.cfg"),
                          ("MC_RingLattice.tla", "MC_RingLattice_n7.cfg"),
                          ("MC_DegreesFixed.tla", "MC_DegreesFixed_n4k6.cfg")]


def what(job, rec, clause):
    arg = {k: job[k] for k in ("n", "k", "inv", "outv", "mx_lvl", "E", "sz_cl", "s", "ntype", "dtype", "layout", "src")
           if k in job}
    for k in ("inv", "outv"):
        if len(arg.get(k, [])) > 24:
            arg[k] = "%d degrees, largest %d (see the replay file)" % (len(arg[k]), max(arg[k]))
    return "args=%s raised=%r" % (arg, rec.get("raised"))


def run(ctx):
    mcs = MC_QUICK if ctx.quick else MC_THOROUGH
    ctx.parallel([(lambda t=t, c=c: ctx.mc(t, c, workers=4, timeout=3000)) for t, c in mcs], width=4)
    jobs = behaviour_jobs(ctx)
    nb = len(jobs)
    jobs += seeded_jobs(ctx)
    # scale regime: separate pool run (longer limit: rejection sampling over 10^5 cells) and TLC
    # runs of a few records each (a record carries a matrix of up to 512 x 512 cells), concurrently
    # with the validation of the small records
    sjobs = scale_jobs(ctx)
    t0 = time.time()
    srecs = pool.run_jobs(MOD, sjobs, limit=120.0, procs=12)
    core.log("  scale regime: %d real calls %.1fs (%d timed out)" % (
        len(sjobs), time.time() - t0, sum(1 for r in srecs if r.get("timeout"))))
    recs = pool.run_jobs(MOD, jobs, limit=20.0, strict_fp=True)
    live = [r for r in srecs if not r.get("timeout")]
    parts = [live[lo:lo + SCALE_CHUNK] for lo in range(0, len(live), SCALE_CHUNK)]
    thunks = [lambda: ctx.validate(*TRACE, recs, chunk=4000)]
    thunks += [(lambda part=part, t=t: ctx.validate(*TRACE, part, tag="Trace_Generators_scale%d" % t, timeout=3000))
               for t, part in enumerate(parts)]
    res = ctx.parallel(thunks, width=4)
    verdicts = res[0]
    it = iter([v for part in res[1:] for v in part])
    sverdicts = [("skip:timeout", "na", "any") if r.get("timeout") else next(it) for r in srecs]
    ctx.judge(jobs, recs, verdicts, what=what)
    ctx.judge(sjobs, srecs, sverdicts, what=what)
    scripted = [r for r in recs[:nb] if not r.get("timeout")]
    ctx.extra["scripted_behaviours"] = nb
    ctx.extra["scripted_followed"] = sum(1 for r in scripted if r["script_status"] == "followed")
    ctx.extra["scripted_off_script"] = sum(1 for r in scripted if r["script_status"] != "followed")
    ctx.extra["seeded_runs"] = len(jobs) - nb
    ctx.extra["scale_runs"] = len(sjobs)
    sc = {}
    for j, r, v in zip(sjobs, srecs, sverdicts):
        d = sc.setdefault("%s/%s" % (j["fn"], j["src"][6:]), dict(calls=0, ok=0, skipped=0, timeout=0, n=[], k=[]))
        d["calls"] += 1
        d["ok"] += v[0] == "ok"
        d["skipped"] += v[0].startswith("skip:") and not r.get("timeout")
        d["timeout"] += bool(r.get("timeout"))
        d["n"].append(j.get("n", 2 ** j.get("mx_lvl", 0)))
        d["k"].append(r.get("rep_k") if j["fn"] == "makefractalCIJ" else j.get("k"))
    ctx.extra["scale_regimes"] = sc
    n_small = len(jobs)
    jobs, recs, verdicts = jobs + sjobs, recs + srecs, list(verdicts) + sverdicts
    per_fn = {}
    for j, r, v in zip(jobs, recs, verdicts):
        d = per_fn.setdefault(j["fn"], dict(calls=0, ok=0, skipped=0))
        d["calls"] += 1
        d["ok"] += v[0] == "ok"
        d["skipped"] += v[0].startswith("skip:")
    ctx.extra["per_generator"] = per_fn
    for fn, d in per_fn.items():      # never pass vacuously: some call of every generator must be judged
        if d["ok"] == 0 and not any(x[0] == fn for x in ctx.violations) and not any(
                k.split("/")[1] == fn for k in ctx.known_hits):
            raise core.MachineryError("no call of %s reached a verdict (all %d skipped)" % (fn, d["calls"]))
    nt = set()
    for j, r in zip(jobs, recs):
        key = nontrivial_key(j, r)
        if key is not None:
            nt.add(key)
    ctx.nontrivial = len(nt)
    ctx.exhaustive = True
    ctx.rule = ("spec->code: every behaviour of RandImpl (dir N=3, und N=4: every K and every K-prefix of every "
                "permutation), RingLatticeImpl (N=3) and DegreesFixedImpl (N=3, k<=3 quick / k<=4 thorough) plus "
                "TLC -simulate behaviours for N up to 6/7 (ring), 5 (degrees), replayed through a scripted RandomState; "
                "code->spec: seeded runs of all seven generators (every feasible K for small n, random beyond; "
                "N in {4,8,16} for the hierarchical ones; degree pairs of random digraphs n in 5..10 and of "
                "structured ones: circulants, complete, stars, empty, disjoint cliques, DAGs, isolated nodes; "
                "integer parameters typed as Python or numpy integers, degree vectors as int64/int32/float64, "
                "contiguous or strided - all drawn from the seeded RNG); "
                "scale regime: per generator a few seeded calls with 130..450 nodes (256/512 for the hierarchical ones), "
                "K tiny / just above 2^15 and 2^16 / 10^5..2*10^5 / full, degree pairs of 130..330-node digraphs (random "
                "sparse to dense, stars and hubs with degrees > 127, circulants, stub counts > 2^15; vectors also typed "
                "int16/uint8), whole matrices judged by TLC with the same clauses; "
                "non-trivial = distinct (generator, arguments, draws) that returned and whose result depended on a draw "
                "(0<K<max, excess removed from the outer band, at least one repair switch, random fill present)")
    if nb:
        ctx.add_sample("scripted-behaviour", dict(job=jobs[0], record=recs[0], verdict=list(verdicts[0])))
        for j, r, v in zip(jobs[:nb], recs[:nb], verdicts[:nb]):
            if j["fn"] == "makerandCIJdegreesfixed" and j["script"][1:]:
                ctx.add_sample("scripted-repair-behaviour", dict(job=j, record=r, verdict=list(v)))
                break
    ctx.add_sample("seeded-run", dict(job=jobs[n_small - 1], record=recs[n_small - 1], verdict=list(verdicts[n_small - 1])))
    for j, r, v in zip(sjobs, srecs, sverdicts):        # the matrix (10^5 cells) stays in the trace file
        if j["fn"] == "maketoeplitzCIJ" and j["k"] >= 100000 and not r.get("timeout"):
            ctx.add_sample("scale-regime-run", dict(job=j, record=dict(r, A="%d x %d cells, omitted" % (r["n"], r["n"])),
                                                    verdict=list(v)))
            break
    ctx.assumptions += [
        "connection = non-zero cell; makerandCIJ_und's K counts undirected edges (2K cells); "
        "makeringlatticeCIJ is directed (K cells), band r = cells at circular offset r",
        "makerandCIJdegreesfixed: BCTParamError is accepted only when the intended loop, fed the same draws, "
        "has no switch candidate left (the documented flag = 0 outcome)",
        "maketoeplitzCIJ's documented BCTParamError (10000 unsuccessful draws) is outside the property",
        "scale-regime records (n > 64): the ring lattice's outer band comes from the closed form of the band capacities "
        "(ASSUMEd equal to the set-based definition for all n <= 9 in Trace_Generators); no drift replay where the "
        "permutation has more than 20000 entries or the stub-matching replay more than 2500 draws / 12000 stubs",
        "exhaustive models: rand dir N=4 / und N=5 (thorough: und N=6, dir N=5 with K<=8), ring N<=5 (thorough N<=7), "
        "degree pairs: all of N=3, N=4 with k<=5 (thorough k<=6); beyond that TLC -simulate behaviours only",
    ]
    return ctx.finish()


def replay(ctx, rp):
    job = rp["job"]
    recs = pool.run_jobs(MOD, [job], limit=60.0)
    verdicts = ctx.validate(*TRACE, recs)
    core.log("replay verdict:", verdicts[0])
    ctx.judge([job], recs, verdicts, what=what)
    return ctx.finish()
