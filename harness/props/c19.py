"""C19 - nbs_bct reports true supra-threshold components and correct permutation p-values.

mc:        spec/NbsImpl.tla (L2 machine of bct/nbs.py: observe -> k x permute -> pvals) on every
           small integer data table (groups (2,2),(2,3),(3,3), paired and not, every tail, every
           draw): the code-shaped computation (MergeAll components, ix_ link sums, labels) refines
           the L0 definitions (exact t-comparison, reachability classes, link counts); null entries,
           hit counter and p-values; swap/tail and reordering symmetries; the integer t-statistic
           triples against the deviations-from-the-mean definition.
spec->code: TLC -simulate behaviours of the same machine (data, threshold, tail, draw script,
           predicted adj / null / p-value counts) forced onto the real routine through a scripted
           RandomState (permutation / rand).
code->spec: seeded random integer stacks n in 4..7, groups 3..6, values 0..3, thresholds odd/8 and
           some even/8 (exact ties are found by the spec and accepted either way), all tails,
           paired and not, k in {5, 20}; every draw served by the stream is logged so that the spec
           recomputes every null entry.  Two transformed calls per job (groups+tail swapped,
           subjects reordered) give the symmetry clauses.
validate:  spec/Trace_Nbs.tla.
"""
import os
import random
import re

import numpy as np

from .. import core, encode, pool, rng as rngmod

FN = "nbs_bct"
GENS = ["u22n4", "u23n4", "u33n3", "p33n4", "p22n4"]
MC_QUICK = ["q_u23n3", "q_p22n4k2", "q_p22n4", "q_p33n3", "q_u22n3", "q_u22n4k2"]
MC_THOROUGH = ["q_p22n4k2", "q_p33n3", "t_u22n3", "t_u22n4", "t_u22n4k2", "t_u22n4k2d", "t_u23n3",
               "t_u23n4", "t_u33n3", "t_p22n4", "t_p33n4"]
SWAP = {"left": "right", "right": "left", "both": "both"}


# ------------------------------------------------------------------ random streams
def _signs(v):
    return [1 if t < 0.5 else (-1 if t > 0.5 else 0) for t in np.asarray(v).ravel()]


class LogRNG(np.random.RandomState):
    """A real MT19937 stream that logs what it serves to the permutation loop."""

    def __init__(self, seed):
        super().__init__(seed)
        self.draws = []

    def permutation(self, x):
        p = super().permutation(x)
        if np.isscalar(x):
            self.draws.append([int(v) + 1 for v in p])
        return p

    def rand(self, *shape):
        v = super().rand(*shape)
        self.draws.append(_signs(v))
        return v


class ScriptNbsRNG(rngmod.ScriptedRNG):
    """ScriptedRNG plus ["signs", [+-1, ...]] items served through rand(1, nx)."""

    def __init__(self, script, fallback_seed=12345):
        super().__init__(script, fallback_seed)
        self.draws = []

    def permutation(self, x):
        p = super().permutation(x)
        if np.isscalar(x):
            self.draws.append([int(v) + 1 for v in p])
        return p

    def rand(self, *shape):
        if not shape:
            return self.random_sample()
        self.log.append(("rand", shape))
        it = self._next(("signs",), "rand%s" % (shape,))
        if it is None or int(np.prod(shape)) != len(it[1]):
            self.off = self.off or "rand shape %s" % (shape,)
            v = np.random.RandomState.rand(self, *shape)
        else:
            v = np.array([0.25 if s > 0 else 0.75 for s in it[1]], dtype=float).reshape(shape)
        self.draws.append(_signs(v))
        return v


# ------------------------------------------------------------------ one real call
def _stack(mats, dtype="float"):
    # subject data arrive in whatever type the caller measured them in: counts are often stored as
    # unsigned or narrow integers, so every job carries a dtype (the values themselves are 0..3)
    return np.stack([np.array(m, dtype=float) for m in mats], axis=2).astype(dtype)


def _call(x, y, thr, k, tail, paired, stream, impl="serial"):
    import bct
    out = dict(raised="", malformed="", adj=[], pvals=[], null=[])
    try:
        if impl == "parallel":        # optional side check (VERIF_C19_PARALLEL=1), not anchored by C19
            from bct import nbs_parallel
            pv, adj, null = nbs_parallel.nbs_bct(x.copy(), y.copy(), thr, k=k, tail=tail,
                                                 paired=bool(paired), seed=stream, workers=2)
        else:
            pv, adj, null = bct.nbs_bct(x.copy(), y.copy(), thr, k=k, tail=tail, paired=bool(paired),
                                        seed=stream)
    except Exception as e:
        out["raised"] = encode.exc_name(e)
        return out
    try:
        out["adj"] = encode.mat_int(adj)
        out["pvals"] = encode.vec_q(pv)
        out["null"] = encode.vec_int(null)
    except (ValueError, TypeError) as e:
        out["malformed"] = str(e)
    return out


def exec_job(job):
    n, tail, paired, k = job["n"], job["tail"], job["paired"], job["k"]
    dt = job.get("dtype") or ["float", "float", "uint8", "int16", "int64", "uint16"][
        (len(str(job["x"])) + job["k"] + int(paired)) % 6]
    x, y = _stack(job["x"], dt), _stack(job["y"], dt)
    # a common baseline: the t statistics (two-sample and paired) are invariant under adding the
    # same constant to every subject's value, so the specification judges the small integers while
    # the real call sees measurements riding on a large offset (where a numerically careless
    # variance formula cancels catastrophically).  The offset is symmetric, so the stacks stay so.
    base = job.get("baseline")
    if base is None:
        base = [0, 0, 0, 1e4, 1e6, 1e8][(len(str(job["y"])) + 3 * job["k"] + job["n"]) % 6]
    if base and dt == "float":
        x, y = x + base, y + base
    # physical units (seed round 7): the t statistics are invariant under multiplying every value by
    # the same positive constant, and EXACTLY so in floating point for a power of two; the real call
    # sees data in units of 2**-30 / 2**-36 (spreads of 1e-9 .. 1e-11: source power, SI units) or 2**30,
    # the specification keeps the small integers.  An absolute tolerance in the code shows only there.
    up = job.get("unit_pow2")
    if up is None:
        up = [0, 0, 0, -30, -36, 30][(len(str(job["x"])) * 7 + job["k"] + 3 * job["n"] + int(paired)) % 6]
    if up and dt == "float":
        x, y = x * 2.0 ** up, y * 2.0 ** up
    thr = job["tn"] / job["td"]
    rec = dict(fn=FN, n=n, nx=x.shape[2], ny=y.shape[2], x=[encode.mat_int(m) for m in job["x"]],
               y=[encode.mat_int(m) for m in job["y"]], tn=job["tn"], td=job["td"], tail=tail,
               paired=int(paired), k=k, script_status="none", has_expect=0, exp_raised=0,
               exp_adj=[], exp_null=[], exp_cnt=[], exp_tie=0)
    impl = job.get("impl", "serial")
    if impl == "parallel":
        rec["fn"] = "nbs_parallel.nbs_bct"
        stream = job["seed"]           # an integer or None: the workers seed their own streams
    elif job.get("script") is not None:
        stream = ScriptNbsRNG(job["script"], fallback_seed=job.get("seed", 1))
    else:
        stream = LogRNG(job["seed"])
    rec.update(_call(x, y, thr, k, tail, paired, stream, impl))
    rec["draws"] = getattr(stream, "draws", [])
    if isinstance(stream, ScriptNbsRNG):
        rec["script_status"] = stream.status()
    if job.get("expect") is not None:
        e = job["expect"]
        rec.update(has_expect=1, exp_raised=e["raised"], exp_adj=e["adj"], exp_null=e["null"],
                   exp_cnt=e["cnt"], exp_tie=e["tie"])
    # transformed calls: only their adjacency output is used (k = 1)
    s = _call(y, x, thr, 1, SWAP[tail], paired, np.random.RandomState(0), impl)
    rec["swap"] = dict(raised=s["raised"] or s["malformed"], adj=s["adj"])
    px, py = job["px"], job["py"]
    t = _call(x[:, :, px], y[:, :, py], thr, 1, tail, paired, np.random.RandomState(0), impl)
    rec["reord"] = dict(raised=t["raised"] or t["malformed"], adj=t["adj"])
    return rec


# ------------------------------------------------------------------ inputs
def edge_pairs(n):
    return [(i, j) for i in range(n) for j in range(i + 1, n)]


def stacks_from_edge_table(n, tab):
    """tab[e][s] (edge-major, np.triu order) -> list over subjects of symmetric n x n matrices."""
    E = edge_pairs(n)
    out = []
    for s in range(len(tab[0])):
        A = np.zeros((n, n))
        for e, (i, j) in enumerate(E):
            A[i, j] = A[j, i] = tab[e][s]
        out.append(A.tolist())
    return out


def reorderings(rng, nx, ny, paired):
    px = list(range(nx)); rng.shuffle(px)
    if paired:
        return px, list(px)
    py = list(range(ny)); rng.shuffle(py)
    return px, py


def behaviour_jobs(ctx, per_cfg):
    rng = random.Random(ctx.seed * 31 + 5)
    thunks = [(lambda c=c: ctx.gen("MC_Nbs.tla", "Gen_Nbs_%s.cfg" % c, tag="sim_" + c, workers=1,
                                   timeout=900,
                                   extra=["-simulate", "num=%d" % per_cfg, "-depth", "10",
                                          "-seed", str(ctx.seed + 19)]))
              for c in GENS]
    results = ctx.parallel(thunks, width=5)
    jobs, seen = [], set()
    for c, items in zip(GENS, results):
        for it in items:
            key = (c, str(it["xs"]), str(it["ys"]), it["tn"], it["tail"], str(it["script"]))
            if key in seen:
                continue
            seen.add(key)
            n, paired = it["n"], it["paired"]
            x = stacks_from_edge_table(n, it["xs"])
            y = stacks_from_edge_table(n, it["ys"])
            script = [["signs" if paired else "perm", list(d)] for d in it["script"]]
            px, py = reorderings(rng, len(x), len(y), paired)
            jobs.append(dict(fn=FN, src="model-behaviour", cfg=c, n=n, x=x, y=y, tn=it["tn"],
                             td=it["td"], tail=it["tail"], paired=paired, k=it["k"], script=script,
                             px=px, py=py,
                             expect=dict(raised=it["raised"], adj=it["adj"], null=it["null"],
                                         cnt=it["cnt"], tie=it["tie"])))
    return jobs


def random_job(rng, quick):
    n = rng.choice([4, 5, 5, 6] if quick else [4, 5, 6, 7])
    paired = rng.random() < 0.4
    nx = rng.randint(3, 6)
    ny = nx if paired else rng.randint(3, 6)
    E = edge_pairs(n)
    m = len(E)
    # a planted subnetwork: one or two node groups whose internal edges carry an effect
    nodes = list(range(n)); rng.shuffle(nodes)
    cut = rng.randint(2, n)
    groups = [set(nodes[:cut])]
    if n - cut >= 2 and rng.random() < 0.6:
        groups.append(set(nodes[cut:]))
    p_eff = rng.choice([0.4, 0.7, 1.0])
    tx, ty = [], []
    for (i, j) in E:
        inside = any(i in g and j in g for g in groups)
        r = rng.random()
        if inside and rng.random() < p_eff:
            hi = rng.random() < 0.75                      # effects of either sign
            top = lambda k: [rng.choice([2, 3, 3]) for _ in range(k)]
            low = lambda k: [rng.choice([0, 0, 1]) for _ in range(k)]
            if paired:
                a = top(nx)
                b = [max(0, v - rng.choice([1, 2, 2, 3])) for v in a]
                vx, vy = (a, b) if hi else (b, a)
            else:
                vx, vy = (top(nx), low(ny)) if hi else (low(nx), top(ny))
        elif r < 0.15:                                    # constant edge: zero variance, no effect
            c = rng.randint(0, 3)
            vx, vy = [c] * nx, [c] * ny
        elif r < 0.25:                                    # zero variance with an effect
            c, d = rng.sample(range(4), 2)
            vx, vy = [c] * nx, [d] * ny
        else:
            vx = [rng.randint(0, 3) for _ in range(nx)]
            vy = [rng.randint(0, 3) for _ in range(ny)]
        tx.append(vx); ty.append(vy)
    x = stacks_from_edge_table(n, tx)
    y = stacks_from_edge_table(n, ty)
    tn = rng.choice([3, 7, 9, 11, 13, 15, 17, 21, 25, 31]) if rng.random() < 0.8 else rng.choice([0, 8, 16, 24])
    px, py = reorderings(rng, nx, ny, paired)
    return dict(fn=FN, src="random", n=n, x=x, y=y, tn=tn, td=8,
                tail=rng.choice(["left", "right", "both", "both"]), paired=int(paired),
                k=rng.choice([5, 20]), seed=rng.randrange(2 ** 31), px=px, py=py)


PATTERNS = {3: [[(0, 1), (1, 2)], [(0, 1), (1, 2), (0, 2)]],
            4: [[(0, 1), (1, 2), (2, 3)], [(0, 1), (0, 2), (0, 3)], [(0, 1), (1, 2), (2, 3), (0, 3)],
                [(0, 1), (1, 2), (2, 3), (0, 3), (0, 2)], [(0, 1), (1, 2), (2, 3), (0, 3), (0, 2), (1, 3)]]}


def equal_groups_job(rng, quick):
    """several planted components with the SAME number of nodes and DIFFERENT numbers of connections
    (a path next to a triangle, a star next to a 4-cycle next to a 4-clique): 'one p-value per
    component ... that component's number of connections' is then the only thing that tells them
    apart (random effects mostly give one component, or components of different node counts)."""
    s = rng.choice([3, 3, 4])
    g = 2 if (s == 4 or rng.random() < 0.6) else 3
    n = min(9, s * g + rng.choice([0, 0, 1]))        # (Nbs.tla tabulates edge lists up to 9 nodes)
    paired = rng.random() < 0.4
    nx = rng.randint(3, 6)
    ny = nx if paired else rng.randint(3, 6)
    nodes = list(range(n)); rng.shuffle(nodes)
    pats = rng.sample(PATTERNS[s], g) if g <= len(PATTERNS[s]) else [rng.choice(PATTERNS[s]) for _ in range(g)]
    planted = set()
    for b in range(g):
        grp = nodes[b * s:(b + 1) * s]
        for (a, c) in pats[b]:
            planted.add((min(grp[a], grp[c]), max(grp[a], grp[c])))
    hi = rng.random() < 0.5
    tx, ty = [], []
    for (i, j) in edge_pairs(n):
        if (i, j) in planted:
            if paired:
                top = [rng.choice([3, 3, 2]) for _ in range(nx)]
                low = [max(0, v - rng.choice([2, 2, 3])) for v in top]
                vx, vy = (top, low) if hi else (low, top)
            else:
                vx = [rng.choice([3, 3, 2] if hi else [0, 0, 1]) for _ in range(nx)]
                vy = [rng.choice([0, 0, 1] if hi else [3, 3, 2]) for _ in range(ny)]
        else:                                  # noise: sometimes supra-threshold under a relabelling
            vx = [rng.randint(0, 3) for _ in range(nx)]
            vy = [rng.randint(0, 3) for _ in range(ny)]
        tx.append(vx); ty.append(vy)
    px, py = reorderings(rng, nx, ny, paired)
    return dict(fn=FN, src="equal-groups", n=n, x=stacks_from_edge_table(n, tx), y=stacks_from_edge_table(n, ty),
                tn=rng.choice([13, 15, 17, 21, 25]), td=8, tail=("right" if hi else "left") if rng.random() < 0.5 else "both",
                paired=int(paired), k=rng.choice([20, 40]), seed=rng.randrange(2 ** 31), px=px, py=py)


def mc_nonvacuous(ctx, c):
    """Model-check one configuration and make sure the permutation loop was actually walked
    (an input table without any supra-threshold edge ends after Observe)."""
    r = ctx.mc("MC_Nbs.tla", "MC_Nbs_%s.cfg" % c, tag="mc_" + c, workers=3 if ctx.quick else 4,
               timeout=3000)
    if r is None:
        return
    m = re.search(r"Finished computing initial states: (\d+) distinct", r["out"])
    inits = int(m.group(1)) if m else 0
    if inits == 0 or r["generated"] < 3 * inits:
        raise core.MachineryError("model %s hardly enters the permutation loop (%d initial states, %d "
                                  "generated): vacuous" % (c, inits, r["generated"]))


def run(ctx):
    cfgs = MC_QUICK if ctx.quick else MC_THOROUGH
    ctx.parallel([(lambda c=c: mc_nonvacuous(ctx, c)) for c in cfgs], width=6 if ctx.quick else 5)
    jobs = behaviour_jobs(ctx, 180 if ctx.quick else 4000)
    nb = len(jobs)
    rng = random.Random(ctx.seed * 104729 + 3)
    jobs += [random_job(rng, ctx.quick) for _ in range(400 if ctx.quick else 8000)]
    rng2 = random.Random(ctx.seed * 7919 + 19)
    jobs += [equal_groups_job(rng2, ctx.quick) for _ in range(120 if ctx.quick else 1500)]
    recs = pool.run_jobs(__name__, jobs, limit=60.0, strict_fp=True)
    if os.environ.get("VERIF_C19_PARALLEL"):
        # side check of bct/nbs_parallel.py (own process pool: run in-line, not in pool workers)
        pj = []
        for j in jobs[nb:nb + 12]:
            pj.append(dict(j, impl="parallel", k=6, src="random-parallel",
                           seed=(None if len(pj) % 2 else j["seed"] % 1000)))
        jobs += pj
        recs += pool.run_jobs(__name__, pj, limit=120.0, procs=1)
    verdicts = ctx.validate("Trace_Nbs.tla", "Trace_Nbs.cfg", recs, chunk=1000)
    ctx.judge(jobs, recs, verdicts)
    scripted = [r for r in recs[:nb] if not r.get("timeout")]
    ctx.extra["scripted_behaviours"] = nb
    ctx.extra["scripted_followed"] = sum(1 for r in scripted if r["script_status"] == "followed")
    ctx.extra["scripted_predicted_exactly"] = sum(
        1 for r, v in zip(recs[:nb], verdicts[:nb]) if v[1] == "same")
    ctx.extra["null_entries_recomputed"] = sum(len(r.get("null", [])) for r in recs)
    ctx.extra["verdict_histogram"] = hist = {}
    for v in verdicts:
        hist[v[0]] = hist.get(v[0], 0) + 1
    nt = set()
    for j, r, v in zip(jobs, recs, verdicts):
        if v[0] == "ok" and r.get("adj"):
            labels = [c for row in r["adj"] for c in row if c]
            if labels and (max(labels) >= 2 or len(labels) >= 4):
                nt.add((str(r["x"]), str(r["y"]), r["tn"], r["tail"], r["paired"]))
    ctx.nontrivial = len(nt)
    ctx.exhaustive = False
    ctx.rule = ("behaviours = TLC -simulate runs of NbsImpl (n = 3..4, groups (2,2),(2,3),(3,3), data 0..2 "
                "on 2-3 edges, k = 2; draw scripts replayed) plus seeded random integer stacks n in 4..7, "
                "groups 3..6, values 0..3, planted effects, constant and zero-variance-effect edges; "
                "non-trivial = distinct (data, threshold, tail, paired) judged ok whose output has >= 2 "
                "components or a component of >= 2 connections")
    if nb:
        ctx.add_sample("scripted-behaviour", dict(
            job={k: jobs[0][k] for k in ("cfg", "n", "tn", "td", "tail", "paired", "k", "script", "expect")},
            null=recs[0].get("null"), script_status=recs[0].get("script_status"), verdict=list(verdicts[0])))
    ctx.add_sample("random-call", dict(
        job={k: jobs[-1][k] for k in ("n", "tn", "td", "tail", "paired", "k", "seed")},
        adj=recs[-1].get("adj"), pvals=recs[-1].get("pvals"), null=recs[-1].get("null"),
        verdict=list(verdicts[-1])))
    ctx.assumptions += [
        "integer subject values 0..3, groups of 2..6 subjects, thresholds tn/8 >= 0: the exact integer "
        "comparison of Nbs.tla then stays below 2^31 and float evaluation of t cannot be off by a sign "
        "unless t = thr exactly (those edges are accepted either way)",
        "zero variance with a nonzero mean difference (t = +-inf): the statement does not fix the outcome; "
        "either is accepted (the code's own convention is tracked as drift only)",
        "a single supra-threshold connection counts as a component of size 1 (docstring / reference NBS)",
        "threshold < 0, groups of one subject and k < 1 are outside the documented domain (skipped)",
    ]
    return ctx.finish()


def replay(ctx, rp):
    job = rp["job"]
    recs = pool.run_jobs(__name__, [job], limit=120.0)
    verdicts = ctx.validate("Trace_Nbs.tla", "Trace_Nbs.cfg", recs)
    core.log("replay verdict:", verdicts[0])
    ctx.judge([job], recs, verdicts)
    return ctx.finish()
