"""C12 - every path the library returns is a real path with the reported length.

mc:       spec/DistanceImpl.tla, machines `floyd` (following Pmat for hops[s,t] steps is a real
          minimum path, empty iff unreachable, at every k and at the end) and `nav` (the greedy
          walk of navigation_wu: always a walk, counters = sums along it, failures infinite in all
          three, max_hops bound, non-termination predicted) - spec/MC_Distance_c12*.cfg.
gen/run:  distance_wei_floyd -> retrieve_shortest_path for ALL (s,t) on TLC-enumerated graphs with
          tie-rich lengths and each transform, and on random graphs; navigation_wu on every
          enumerated graph x integer nodal distance matrices x max_hops (None only on forests and
          DAGs, where the greedy walk cannot cycle - the code never stops on a cycle of >= 3
          nodes with max_hops=None).
validate: spec/Trace_Distance.tla judges every record.
"""
import random

import numpy as np

from .. import core, encode, inputs, pool
from . import c03
from . import rel_common as rc

TLA, CFG = "Trace_Distance.tla", "Trace_Distance.cfg"


# ------------------------------------------------------------------ one call
def exec_retrieve(job):
    import bct
    mode = job["mode"]
    n = len(job["K"])
    rec = dict(fn=job["fn"], kind="retrieve", mode=mode, n=n, Lm=c03.lm_of(job["K"]),
               raised="", malformed="", D=[], B=[], P=[], paths=[])
    # same matrix, other argument dtype / memory layout (rel_common; Lm above stays exact)
    # magnitude family (seed round 7, see c03.exec_job): lengths times 2**pow2, exact; SPL divided back
    sc = 2.0 ** job["pow2"] if job.get("pow2") else 1.0
    A0 = c03.input_of(job["K"], mode)
    if sc != 1.0:
        A0 = A0 * sc if mode in ("len", "bin") else A0 / sc
    A = rc.as_variant(A0, job.get("dtype", "float64"), job.get("layout", "C"))
    try:
        SPL, hops, Pmat = bct.distance_wei_floyd(A, transform=c03.TRANSFORM[mode])
        if sc != 1.0:
            SPL = np.asarray(SPL, dtype=float) / sc
        if job.get("out_layout"):           # hops / Pmat handed on as Fortran-ordered arrays
            hops, Pmat = np.asfortranarray(hops), np.asfortranarray(Pmat)
        paths = [[bct.retrieve_shortest_path(s, t, hops, Pmat) for t in range(n)] for s in range(n)]
    except pool.CallTimeout:
        raise
    except Exception as e:
        rec["raised"] = encode.exc_name(e)
        return rec
    try:
        rec["D"] = c03.mat_len(SPL, mode)
        rec["B"] = encode.mat_int(hops)
        rec["P"] = encode.mat_int(np.asarray(Pmat) + 1)
        rec["paths"] = [[[encode.e_int(v) + 1 for v in np.asarray(p).ravel()] for p in row] for row in paths]
    except ValueError as e:
        rec["malformed"] = str(e)[:80]
    return rec


def exec_retrieve_big(job):
    """scale regime (130..400 nodes): distance_wei_floyd once, retrieve_shortest_path for the drawn
    sources x ALL targets.  The record carries the raw data TLC needs: the input length matrix,
    the reported SPL and hops matrices and the returned node sequences."""
    import bct
    mode = job["mode"]
    n = len(job["K"])
    rec = dict(fn=job["fn"], kind="retrieve_big", mode=mode, n=n, Lm=c03.lm_of(job["K"]),
               raised="", malformed="", D=[], B=[], srcs=[s + 1 for s in job["srcs"]], paths=[])
    A = rc.as_variant(c03.input_of(job["K"], mode), job.get("dtype", "float64"), job.get("layout", "C"))
    try:
        SPL, hops, Pmat = bct.distance_wei_floyd(A, transform=c03.TRANSFORM[mode])
        if job.get("out_layout"):
            hops, Pmat = np.asfortranarray(hops), np.asfortranarray(Pmat)
        paths = [[bct.retrieve_shortest_path(s, t, hops, Pmat) for t in range(n)] for s in job["srcs"]]
    except pool.CallTimeout:
        raise
    except Exception as e:
        rec["raised"] = encode.exc_name(e)
        return rec
    try:
        rec["D"] = c03.mat_len(SPL, mode)
        rec["B"] = encode.mat_int(hops)
        rec["paths"] = [[[encode.e_int(v) + 1 for v in np.asarray(p).ravel()] for p in row] for row in paths]
    except ValueError as e:
        rec["malformed"] = str(e)[:80]
    return rec


def exec_nav(job):
    import bct
    L = rc.as_variant(np.array(job["L"], dtype=float), job.get("dtype", "float64"), job.get("layout", "C"))
    Dmf = np.array(job["Dm"], dtype=float)
    if (Dmf >= encode.INF).any():          # the job writes inf as encode.INF (the record keeps that)
        Dmf[Dmf >= encode.INF] = np.inf
        Dm = rc.as_variant(Dmf, "float64", job.get("dm_layout", "C"))
    else:
        Dm = rc.as_variant(Dmf, job.get("dm_dtype", "float64"), job.get("dm_layout", "C"))
    n = len(L)
    rec = dict(fn="navigation_wu", kind="nav", n=n, L=job["L"], Dm=job["Dm"], maxh=job["maxh"],
               raised="", malformed="", sr=-1, PLb=[], PLw=[], PLd=[], paths=[])
    try:
        sr, PLb, PLw, PLd, paths = bct.navigation_wu(L, Dm, max_hops=None if job["maxh"] < 0 else job["maxh"])
    except pool.CallTimeout:
        raise
    except Exception as e:
        rec["raised"] = encode.exc_name(e)
        return rec
    try:
        rec["sr"] = encode.e_q(sr)
        rec["PLb"] = encode.mat_int(PLb)
        rec["PLw"] = encode.mat_int(PLw)
        rec["PLd"] = encode.mat_int(PLd)
        rec["paths"] = [[[] if i == j else [encode.e_int(v) + 1 for v in paths[(i, j)]]
                         for j in range(n)] for i in range(n)]
    except (ValueError, KeyError) as e:
        rec["malformed"] = ("%s: %s" % (type(e).__name__, e))[:80]
    return rec


def exec_job(job):
    if job.get("big"):
        c03.single_thread_blas()
    if job["kind"] == "retrieve_big":
        return exec_retrieve_big(job)
    return exec_nav(job) if job["kind"] == "nav" else exec_retrieve(job)


# -------------------------------------------------------------------- inputs
def retrieve_job(K, mode, src, variant=rc.PLAIN, out_layout=0):
    tr = {"bin": "none", "len": "none", "inv": "inv", "log": "log"}[mode]
    return dict(fn="retrieve_shortest_path:" + tr, kind="retrieve", mode=mode, K=K, src_kind=src,
                dtype=variant[0], layout=variant[1], out_layout=out_layout)


def retrieve_variant(rng, K, mode, src, p_plain=0.3):
    dt, lay = rc.draw_variant(rng, c03.dtype_family(mode, K), p_plain)
    # what distance_wei_floyd may be handed for this draw: c03.arg_dtype (no bool, no float32 -
    # 1e-10 tie tolerance -, uint8 only without a transform, where it copies to float first)
    return retrieve_job(K, mode, src, (c03.arg_dtype("distance_wei_floyd", dt, mode), lay), rng.randrange(2))


def sym_dist(rng, n, vals):
    D = [[0] * n for _ in range(n)]
    for i in range(n):
        for j in range(i + 1, n):
            D[i][j] = D[j][i] = rng.choice(vals)
    return D


def grid_dist(rng, n):
    """Manhattan distances between random integer points: a genuine metric with many ties."""
    pts = [(rng.randint(0, 3), rng.randint(0, 3)) for _ in range(n)]
    return [[abs(a[0] - b[0]) + abs(a[1] - b[1]) for b in pts] for a in pts]


def nav_job(L, Dm, maxh, src, variant=rc.PLAIN, dm_variant=rc.PLAIN):
    return dict(fn="navigation_wu", kind="nav", L=L, Dm=Dm, maxh=maxh, src_kind=src,
                dtype=variant[0], layout=variant[1], dm_dtype=dm_variant[0], dm_layout=dm_variant[1])


def nav_variant(rng, L, Dm, maxh, src, p_plain=0.3):
    """lengths and nodal distances are small non-negative integers: each argument gets its own
    (dtype, layout) draw, so that e.g. an int32 length matrix meets an int64 distance matrix.
    rel_common.admissible: navigation_wu accumulates path lengths in the arguments' dtypes and
    its outputs are real-valued sums -> no unsigned type, no float32"""
    (d1, l1), (d2, l2) = rc.draw_variant(rng, rc.DT_COUNT, p_plain), rc.draw_variant(rng, rc.DT_COUNT, p_plain)
    return nav_job(L, Dm, maxh, src, (rc.admissible(d1), l1), (rc.admissible(d2), l2))


def hop_dist(n, edges):
    """nodal distance = |i - j| (a line embedding): a metric full of exact ties"""
    return [[abs(i - j) for j in range(n)] for i in range(n)]


def len_matrix(rng, n, edges, und, loops=0):
    L = [[0] * n for _ in range(n)]
    for (i, j) in edges:
        v = rng.choice([1, 2, 3])
        L[i][j] = v
        if und:
            L[j][i] = v
    for i in rng.sample(range(n), min(loops, n)):
        L[i][i] = rng.choice([1, 2])
    return L


def build_jobs(ctx):
    rng = random.Random(ctx.seed)
    q = ctx.quick
    jobs = []
    modes = ["len", "inv", "log", "bin"]
    # ---- retrieve_shortest_path over distance_wei_floyd
    plan = [("dir", 3, None, 3), ("dir", 4, 300 if q else None, 1 if q else 2),
            ("und", 4, None, 3), ("und", 5, 150 if q else None, 1 if q else 2)]
    for kind, n, cap, reps in plan:
        graphs = inputs.model_graphs(ctx, kind, n)
        if cap:
            graphs = inputs.sample(rng, graphs, cap)
        for edges in graphs:
            for mode in rng.sample(modes, reps):
                jobs.append(retrieve_job(c03.code_matrix(rng, n, edges, kind == "und", mode), mode, "model"))
    for edges in inputs.sample(rng, inputs.model_graphs(ctx, "dir", 3), 16 if q else 64):
        jobs.append(retrieve_job(c03.code_matrix(rng, 3, edges, False, "len", loops=1), "len", "model-loops"))
    # a sample of the model inputs again as another argument dtype / memory layout
    for j in inputs.sample(rng, [j for j in jobs if j["kind"] == "retrieve"], 250 if q else 2500):
        jobs.append(retrieve_variant(rng, j["K"], j["mode"], j["src_kind"] + "-variant", p_plain=0.0))
    for k in range(80 if q else 1200):
        n = rng.randint(6, 9 if q else 12)
        und = rng.random() < 0.5
        p = rng.choice([0.12, 0.2, 0.35])
        edges = [(i, j) for i in range(n) for j in range(n)
                 if (i < j if und else i != j) and rng.random() < p]
        mode = rng.choice(modes)
        K = c03.code_matrix(rng, n, edges, und, mode, loops=rng.choice([0, 0, 0, 1]), codes=c03.draw_codes(rng, mode))
        jobs.append(retrieve_variant(rng, K, mode, "random"))
    # structured families: long paths/cycles (paths of many hops), stars, complete (bipartite) graphs
    # (maximal ties), caterpillars, rings of cliques, several components, isolated nodes
    for k in range(90 if q else 1200):
        name, n, edges = rc.structured_support(rng, 5, 9 if q else 12)
        und = rng.random() < 0.5
        if not und:
            edges = rc.orient(rng, edges)
        mode = rng.choice(modes)
        K = c03.code_matrix(rng, n, edges, und, mode, loops=rng.choice([0, 0, 0, 1]), codes=c03.draw_codes(rng, mode))
        jobs.append(retrieve_variant(rng, K, mode, "struct-" + name))
    # ---- tie-rich 'log' inputs: weights {1/2,1/4} (no zero lengths) on 5..7 nodes, where minimum
    #      paths of different edge counts tie exactly and the float sums of k*ln2 differ in the last bit
    for k in range(500 if q else 3000):
        n = rng.randint(5, 7)
        und = rng.random() < 0.5
        edges = [(i, j) for i in range(n) for j in range(n)
                 if (i < j if und else i != j) and rng.random() < 0.45]
        K = c03.code_matrix(rng, n, edges, und, "len")          # codes 1..3
        K = [[min(v, 2) for v in row] for row in K]             # -> k in {1,2}
        jobs.append(retrieve_job(K, "log", "log-ties", ("float64", rng.choice(rc.LAYOUTS)), rng.randrange(2)))
    # ---- magnitude family (seed round 7): weighted retrieve jobs again with every length scaled by
    #      2**-27..2**-40, plus dense tie-poor inputs (20..30 nodes, lengths 1..40) where later pivots
    #      improve known routes by small amounts
    cand = [j for j in jobs if j["kind"] == "retrieve" and j["mode"] in ("len", "inv")
            and j.get("dtype", "float64") == "float64"]
    for j in inputs.sample(rng, cand, 150 if q else 1500):
        jobs.append(dict(j, pow2=-rng.choice([27, 30, 34, 40]), src_kind=j["src_kind"] + "-tiny"))
    for k in range(12 if q else 80):
        n = rng.randint(10, 20)
        und = rng.random() < 0.5
        K = [[-1] * n for _ in range(n)]
        for i in range(n):
            for jx in range(n):
                if (i < jx if und else i != jx) and rng.random() < 0.6:
                    K[i][jx] = rng.randint(1, 40)
                    if und:
                        K[jx][i] = K[i][jx]
        mode = "len"          # (1/k is not exact for k = 3, 5, ...: 'inv' keeps the power-of-two codes)
        jobs.append(dict(retrieve_job(K, mode, "dense-tiny"), pow2=-rng.choice([27, 30, 34, 40])))
        jobs.append(retrieve_job(K, mode, "dense"))
    # ---- navigation_wu: enumerated graphs x nodal distances x finite max_hops
    for kind, n, cap, reps in [("und", 4, None, 4 if q else 40), ("dir", 3, None, 3 if q else 27),
                               ("dir", 4, 150 if q else 2000, 1), ("und", 5, 100 if q else None, 1)]:
        graphs = inputs.model_graphs(ctx, kind, n)
        if cap:
            graphs = inputs.sample(rng, graphs, cap)
        for edges in graphs:
            for _ in range(reps):
                L = len_matrix(rng, n, edges, kind == "und")
                Dm = sym_dist(rng, n, [1, 2, 3]) if rng.random() < 0.6 else grid_dist(rng, n)
                if rng.random() < 0.12:      # "all nodal distance matrices": some pairs infinitely far apart
                    for _x in range(rng.randint(1, 3)):
                        a, b = rng.sample(range(n), 2)
                        Dm[a][b] = Dm[b][a] = encode.INF
                jobs.append(nav_job(L, Dm, rng.choice([0, 1, 2, n, 2 * n]), "model"))
    for j in inputs.sample(rng, [j for j in jobs if j["kind"] == "nav"], 120 if q else 2000):
        jobs.append(nav_variant(rng, j["L"], j["Dm"], j["maxh"], "model-variant", p_plain=0.0))
    # ---- max_hops=None where the greedy walk cannot cycle: forests and DAGs (random, and the
    #      structured trees: paths, stars, caterpillars with a long spine)
    for k in range(120 if q else 1500):
        n = rng.randint(3, 8)
        order = list(range(n))
        rng.shuffle(order)
        edges = []
        shape = rng.choice(["forest", "dag", "path", "star", "caterpillar"])
        und = shape != "dag"
        if shape == "forest":                        # forest (undirected, acyclic)
            for idx in range(1, n):
                if rng.random() < 0.8:
                    edges.append((order[idx], order[rng.randrange(idx)]))
        elif shape == "dag":                         # DAG along a random order
            edges = [(order[a], order[b]) for a in range(n) for b in range(a + 1, n) if rng.random() < 0.4]
        else:
            base = {"path": rc.s_path(n), "star": rc.s_star(n), "caterpillar": rc.s_caterpillar(rng, n)}[shape]
            edges = [(order[a], order[b]) for a, b in base]
        Dm = rng.choice([grid_dist, grid_dist, lambda r, m: sym_dist(r, m, [1, 2, 3]),
                         lambda r, m: sym_dist(r, m, [1]), lambda r, m: hop_dist(m, None)])(rng, n)
        jobs.append(nav_variant(rng, len_matrix(rng, n, edges, und), Dm, -1, "acyclic-" + shape))
    # ---- random larger graphs and structured families, metric distances, self-loops, finite
    #      max_hops incl. the boundaries 0, 1, n-1 (exactly enough on a path), n
    for k in range(100 if q else 1500):
        if rng.random() < 0.5:
            n = rng.randint(5, 10)
            und = rng.random() < 0.67
            p = rng.choice([0.15, 0.3, 0.5])
            edges = [(i, j) for i in range(n) for j in range(n)
                     if (i < j if und else i != j) and rng.random() < p]
            src = "random"
        else:
            name, n, edges = rc.structured_support(rng, 5, 10)
            und = rng.random() < 0.67
            if not und:
                edges = rc.orient(rng, edges)
            src = "struct-" + name
        L = len_matrix(rng, n, edges, und, loops=rng.choice([0] * 9 + [1]))
        Dm = grid_dist(rng, n) if rng.random() < 0.7 else hop_dist(n, None)
        jobs.append(nav_variant(rng, L, Dm, rng.choice([0, 1, 2, n - 1, n, 3 * n]), src))
    jobs += big_jobs(ctx, rng)
    return jobs


def is_forest(n, edges):
    """input classification (not a verdict): no cycle among the undirected connections, so the
    greedy walk cannot cycle and max_hops=None terminates"""
    root = list(range(n))

    def find(x):
        while root[x] != x:
            root[x] = root[root[x]]
            x = root[x]
        return x
    for a, b in edges:
        ra, rb = find(a), find(b)
        if ra == rb:
            return False
        root[ra] = rb
    return True


def big_jobs(ctx, rng):
    """scale regime: networks with more nodes than an int8 / uint8 index or hop counter holds
    (130..300, thorough ..400): rings with chords, long chains, clique + long path, grids, cut into
    two components or not, directed or not, natural or shuffled numbering; lengths {1,2,3}, a single
    value, or a wide set whose path totals leave the exact range of float32; 'inv' weights down to
    2^-20; argument dtypes incl. int8/int16/uint8 where distance_wei_floyd converts to float first.
    Every run has an uncut long chain (paths of more than 127 hops) and a wide-length input
    (c03.big_inputs).  retrieve_shortest_path for up to 7 sources (first / last node of the numbering
    and of the construction, 3 drawn ones) x all targets; navigation_wu on 130..160 nodes (first an uncut chain) with a line metric
    of drawn node positions or of the numbering itself (paths of up to n-1 hops)."""
    q = ctx.quick
    jobs = []
    sizes = [(130, 160), (161, 256), (257, 300)] if q else [(130, 160), (161, 256), (257, 300), (301, 400)] * 4
    for name, n, und, mode, codes, K, srcs in c03.big_inputs(rng, sizes):
        dt, lay = c03.big_dtype(rng, mode, codes, c03.TRANSFORM[mode] is None)
        tr = {"bin": "none", "len": "none", "inv": "inv"}[mode]
        jobs.append(dict(fn="retrieve_shortest_path:" + tr, kind="retrieve_big", mode=mode, K=K,
                         src_kind="big-" + name, srcs=srcs,
                         dtype=c03.arg_dtype("distance_wei_floyd", dt, mode), layout=lay,
                         out_layout=rng.randrange(2), big=1))
    for k in range(1 if q else 6):                      # the first one an uncut chain: up to n-1 > 127 hops
        name, n, edges, _, pos = c03.big_support(rng, 130, 140 if k == 0 else 160, und=True, p_split=0.15, want_pos=True,
                                                 kinds=("longchain",) if k == 0 else c03.BIG_KINDS)
        tree = is_forest(n, edges)
        L = len_matrix(rng, n, edges, True)
        if k > 0 and rng.random() < 0.4:                # unrelated positions: most navigations fail
            pos = list(range(n))
            rng.shuffle(pos)
        # line metric of the nodes' positions in the construction (chain: the hop metric itself, every
        # navigation arrives; ring / grid / clique + path: progress along the numbering)
        Dm = [[abs(pos[i] - pos[j]) for j in range(n)] for i in range(n)]
        maxh = -1 if tree and rng.random() < 0.7 else rng.choice([n - 1, n, n + 20])
        jobs.append(dict(nav_variant(rng, L, Dm, maxh, "big-" + name), big=1))
    return jobs


# ----------------------------------------------------------------------- run
def what(job, rec, clause):
    v = "dtype=%s layout=%s" % (job.get("dtype", "float64"), job.get("layout", "C"))
    if job["kind"] == "nav":
        return "n=%d max_hops=%s source=%s %s Dm:%s/%s" % (len(job["L"]), job["maxh"], job.get("src_kind"), v,
                                                          job.get("dm_dtype", "float64"), job.get("dm_layout", "C"))
    return "mode=%s n=%d source=%s %s%s" % (job["mode"], len(job["K"]), job.get("src_kind"), v,
                                           " sources=%s" % job["srcs"] if "srcs" in job else "")


def run(ctx):
    ctx.mc("MC_Distance.tla", "MC_Distance_c12.cfg" if ctx.quick else "MC_Distance_c12_thorough.cfg")
    jobs = build_jobs(ctx)
    recs = c03.run_all(jobs, __name__)
    verdicts = ctx.validate(TLA, CFG, recs)
    ctx.judge(jobs, rc.tag_failures(ctx, jobs, recs, verdicts), verdicts, what)
    ctx.extra["argument_variants"] = rc.variant_counts(jobs)
    ctx.extra["scale_regime_records"] = sum(1 for j in jobs if j.get("big"))
    seen = set()
    for j, r in zip(jobs, recs):
        if r.get("raised") or r.get("malformed") or r.get("timeout"):
            continue
        longest = max([len(p) for row in r["paths"] for p in row] + [0])
        if j["kind"] == "retrieve" and longest >= 3:
            seen.add(("r", j["mode"], str(j["K"])))
        if j["kind"] == "nav" and longest >= 3 and any(v == encode.INF for i, row in enumerate(r["PLb"])
                                                         for k, v in enumerate(row) if i != k):
            seen.add(("n", str(j["L"]), str(j["Dm"]), j["maxh"]))
    ctx.nontrivial = len(seen)
    ctx.exhaustive = True
    ctx.rule = ("retrieve_shortest_path for all (s,t) on every digraph on 3 nodes, every graph on 4 nodes, %s "
                "(TLC-enumerated; lengths {1,2,3}, 'inv'/'log' dyadic weights, 0/1) and seeded random graphs n<=%d; "
                "navigation_wu on every graph on 4 nodes and digraph on 3 nodes (+ sampled larger) x integer nodal "
                "distance matrices x max_hops in {0,1,2,n,2n}, max_hops=None on random forests, DAGs, paths, stars and "
                "caterpillars, random and structured graphs (paths, cycles, stars, complete, bipartite, rings of "
                "cliques, several components) n<=10 with Manhattan / line / constant distances and max_hops in "
                "{0,1,2,n-1,n,3n}; a sample of all inputs again as another argument dtype (uint8/int32/int64/float32 "
                "where the values allow it, drawn separately for L and D) and memory layout (Fortran, transposed, "
                "window, strided), hops/Pmat also passed on Fortran-ordered; all choices drawn from the seeded RNG; "
                "scale regime: %d networks of 130..%d nodes (rings with chords, long chains, clique + path, "
                "grids; two components; directed; int8/int16/uint8 arguments; lengths up to 2^20) with "
                "retrieve_shortest_path for up to 7 sources x all targets, and navigation_wu on 130..160 nodes "
                "with a line metric; "
                "non-trivial = distinct input with a returned path of >= 3 "
                "nodes (navigation: and at least one failed pair)"
                % ("sampled digraphs on 4 / graphs on 5 nodes" if ctx.quick else
                   "every digraph on 4 and graph on 5 nodes", 9 if ctx.quick else 12,
                   sum(1 for j in jobs if j.get("big")), 300 if ctx.quick else 400))
    for kind in ("retrieve", "nav"):
        for j, r in zip(jobs, recs):
            if j["kind"] == kind and r["n"] == 4 and max([len(p) for row in r["paths"] for p in row] + [0]) >= 3:
                ctx.add_sample("model-input:" + j["fn"], dict(job=j, record=r))
                break
    last = max(k for k, j in enumerate(jobs) if not j.get("big"))
    ctx.add_sample("random-input", dict(job=jobs[last], record=recs[last]))
    for j, r in zip(jobs, recs):
        if j.get("big"):                                # matrices of 130+ nodes: sizes only
            ctx.add_sample("scale-regime-input", dict(fn=j["fn"], kind=j["kind"], n=r.get("n"),
                                                      source=j.get("src_kind"), dtype=j.get("dtype"),
                                                      layout=j.get("layout"), mode=j.get("mode", ""),
                                                      max_hops=j.get("maxh", ""), sources=j.get("srcs", []),
                                                      longest_path=max([len(p) for row in r.get("paths", [])
                                                                        for p in row] + [0])), limit=10)
    ctx.assumptions += [
        "TLC evaluates the L0 definitions (IsWalk, PathLen, Dist) correctly",
        "lengths and nodal distances are small integers (weights dyadic for 'inv'/'log'; 'log' lengths divided "
        "by ln 2 and required integral within 1e-9), so reported totals are compared exactly",
        "only s != t is judged (retrieve_shortest_path returns [] for s == t by construction)",
        "navigation_wu is never called with max_hops=None on an input that may contain a cycle of >= 3 nodes "
        "(the code does not terminate there; termination is outside the statement)",
        "a navigation counts as succeeded when its reported hop count is finite",
        "scale-regime records (more than 20 nodes) are judged by the same clauses with 'unreachable' decided by "
        "breadth-first search over the input's connections (Distance!ReachFrom, cross-checked against Dist by "
        "mc: FastOracleInv); retrieve_shortest_path is called there for up to 7 sources (ends + RNG-drawn) x all targets; no "
        "drift prediction for them"]
    return ctx.finish()


def replay(ctx, rp):
    job = rp["job"]
    recs = c03.run_all([job], __name__)
    verdicts = ctx.validate(TLA, CFG, recs)
    core.log("replay verdict:", verdicts[0])
    if job.get("big"):                                  # 130+ nodes: the matrices stay in the replay file
        core.log("  input:", what(job, recs[0], verdicts[0][0]))
        core.log("  observed:", {k: recs[0][k] for k in ("raised", "malformed", "sr") if recs[0].get(k) not in ("", -1, None)})
        ctx.judge([job], recs, verdicts, what)
        return ctx.finish()
    core.log("  input:", {k: job[k] for k in ("mode", "K", "L", "Dm", "maxh") if k in job})
    core.log("  observed:", {k: recs[0][k] for k in ("D", "B", "P", "sr", "PLb", "PLw", "PLd", "paths", "raised", "malformed")
                             if recs[0].get(k) not in ([], "", -1, None)})
    ctx.judge([job], recs, verdicts, what)
    return ctx.finish()
