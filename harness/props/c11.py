"""C11 - constrained rewiring honours connectivity, lattice cost and forbidden cells.

mc:        MC_Probe (soundness of the two frontier-expansion probes on every connected graph and
           every candidate swap), RewireImpl with Conn/Latt/Mask variants (ConnInv, LatticeStep,
           MaskInv along all behaviours).
spec->code / code->spec: as C01 (same hooks, same Trace_Rewire.tla) with the C11 clause lists:
           connectivity after every accepted swap, lattice cost step by step and overall, mask
           cells, BCTParamError for disconnected / asymmetric input to the undirected variants.
"""
import random

import numpy as np

from .. import core, pool, rewire_common as rc
from . import c01

PROP = "C11"
FNS = ["randmio_und_connected", "randmio_dir_connected", "latmio_und_connected",
       "latmio_dir_connected", "latmio_und", "latmio_dir", "randomize_graph_partial_und"]
GEN = {k: v for k, v in c01.GEN.items() if k in (
    "undconn5", "dirconn4", "lattund5", "lattundconn5", "lattdir4", "lattdirconn4", "mask4", "mask5")}
MC_QUICK = ["q_undconn4", "q_dirconn4", "q_lattundconn4", "q_lattdirconn4", "q_mask4"]
MC_THOROUGH = ["t_undconn5", "t_dirconn4", "t_lattundconn5", "t_lattdirconn4", "t_lattund5",
               "t_lattdir4", "t_mask4"]


def exec_job(job):
    return rc.exec_job(job)


def reject_jobs(ctx, count):
    """disconnected or asymmetric input to the undirected *_connected routines"""
    rng = random.Random(ctx.seed + 5)
    jobs = []
    for t in range(count):
        fn = ["randmio_und_connected", "latmio_und_connected"][t % 2]
        n = rng.randint(4, 8)
        if t % 4 < 2:     # two components, each with an edge
            A = np.zeros((n, n))
            cut = rng.randint(2, n - 2)
            for lo, hi in ((0, cut), (cut, n)):
                for x in range(lo + 1, hi):
                    u = rng.randrange(lo, x)
                    A[x, u] = A[u, x] = 1
            p = list(range(n)); rng.shuffle(p)
            A = A[np.ix_(p, p)]
        else:             # asymmetric
            A = rc.rand_input(rng, "randmio_dir_connected", n)
            if (A == A.T).all():
                continue
        jobs.append(dict(fn=fn, prop=PROP, R0=A.tolist(), itr=1, seed=rng.randrange(2 ** 31), src="reject"))
    return jobs


def run(ctx):
    probes = ["und5", "dir4"] if ctx.quick else ["und5", "und6", "dir4"]
    extra = [("MC_Probe.tla", "MC_Probe_%s.cfg" % p) for p in probes]
    mc_cfgs = MC_QUICK if ctx.quick else MC_THOROUGH
    thunks = [(lambda c=c: ctx.mc("MC_Rewire.tla", "MC_Rewire_%s.cfg" % c, tag="mc_" + c,
                                  timeout=3000, workers=6)) for c in mc_cfgs]
    thunks += [(lambda t=t, c=c: ctx.mc(t, c, workers=6, timeout=3000)) for t, c in extra]
    ctx.parallel(thunks, width=4)
    jobs = c01.behaviour_jobs(ctx, PROP, GEN, 80 if ctx.quick else 800)
    nb = len(jobs)
    jobs += c01.random_jobs(ctx, PROP, FNS, 280 if ctx.quick else 4200)
    jobs += reject_jobs(ctx, 40 if ctx.quick else 400)
    recs = pool.run_jobs("harness.props.c01", jobs, limit=10.0, reuse=True, abort=True)
    verdicts = ctx.validate("Trace_Rewire.tla", "Trace_Rewire.cfg", recs, chunk=1500)
    ctx.judge(jobs, recs, verdicts)
    scripted = [r for r in recs[:nb] if not r.get("timeout")]
    ctx.extra["scripted_behaviours"] = nb
    ctx.extra["scripted_followed"] = sum(1 for r in scripted if r["script_status"] == "followed")
    ctx.extra["hook_events_validated"] = sum(len(r.get("events", [])) for r in recs)
    ctx.extra["rejected_attempts_seen"] = sum(1 for r in recs for e in r.get("events", []) if not e["acc"])
    nt = set()
    for j, r in zip(jobs, recs):
        ev = r.get("events") or []
        if (any(e["acc"] for e in ev) and any(not e["acc"] for e in ev)) or r.get("raised"):
            nt.add((r["fn"], str(r.get("R0")), str(j.get("script") or j.get("seed"))))
    ctx.nontrivial = len(nt)
    ctx.rule = ("TLC -simulate behaviours of the constrained variants of RewireImpl replayed through "
                "ScriptedRNG + seeded random runs on sparse connected graphs (trees/rings plus chords), "
                "custom D, random masks + disconnected/asymmetric inputs; non-trivial = distinct run "
                "with at least one accepted AND one rejected attempt, or a rejected input")
    ctx.add_sample("scripted-behaviour", dict(job=jobs[0], eff=recs[0].get("eff_out")))
    ctx.add_sample("reject-input", dict(job=jobs[-1], raised=recs[-1].get("raised")))
    ctx.assumptions += ["undirected latticisers are given symmetric D (default D is symmetric)",
                        "integer weights 1..3, n <= 9; probe soundness exhaustive for N = 5 (6 thorough) "
                        "undirected and N = 4 directed"]
    return ctx.finish()


def replay(ctx, rp):
    return c01.replay(ctx, rp)
