"""Regenerates the table of DESIGN.md section 0.7 (what each check consists of) from the files:
   python harness/mkdesigntable.py   -> prints the markdown table."""
import os
import re

ROOT = os.path.dirname(os.path.dirname(os.path.abspath(__file__)))
SPEC = os.path.join(ROOT, "spec")
LIB = {"BctBase", "BctGraph", "BctRational", "TraceBase"}
BINDING = {
    "C01": "hooks: attempt events; ScriptedRNG replay of TLC behaviours (incl. unlucky-draw prefixes)",
    "C02": "hooks: move/level events; ScriptedRNG replay; guard-boundary inputs from the model",
    "C03": "pure calls", "C04": "registry-driven pairs f(A), f(A[p,p])",
    "C05": "TLC-generated call histories executed on the seeded routines",
    "C06": "hooks: attempt events; ScriptedRNG replay", "C07": "as C02",
    "C08": "pure calls; gadget chains judged compositionally", "C09": "pure calls",
    "C10": "pairs of real outputs", "C11": "as C01", "C12": "pure calls; every (s,t) / sampled sources",
    "C13": "TLC-generated programs over all public functions", "C14": "pairs f(W,ci), f(W,relabel(ci))",
    "C15": "pure calls", "C16": "pure calls", "C17": "pure calls", "C18": "pure calls",
    "C19": "ScriptedRNG replay of TLC behaviours; seeded calls", "C20": "seeded calls; scripted draws",
}
HELPERS = {"rewire_common": ("c01", "c06", "c11"), "louvain_common": ("c02", "c07"),
           "rel_common": ("c10", "c14")}


def read(p):
    with open(p) as f:
        return f.read()


def modules_of(pid):
    src = read(os.path.join(ROOT, "harness", "props", pid.lower() + ".py"))
    if pid == "C07":
        src += read(os.path.join(ROOT, "harness", "props", "c02.py"))
    for h, users in HELPERS.items():
        if pid.lower() in users:
            hp = os.path.join(ROOT, "harness", h + ".py")
            src += read(hp if os.path.exists(hp) else os.path.join(ROOT, "harness", "props", h + ".py"))
    names = set(re.findall(r'"([A-Za-z_0-9]+)\.tla"', src))
    names |= set(m for m in re.findall(r'"(MC_[A-Za-z0-9]+|Trace_[A-Za-z0-9]+|Gen[A-Z][A-Za-z0-9]+)', src)
                 if os.path.exists(os.path.join(SPEC, m + ".tla")))
    todo, seen = list(names), set()
    while todo:
        m = todo.pop()
        p = os.path.join(SPEC, m + ".tla")
        if m in seen or not os.path.exists(p):
            continue
        seen.add(m)
        t = read(p)
        for e in re.findall(r"^EXTENDS (.*)$", t, re.M):
            todo += [x.strip() for x in e.split(",")]
        todo += re.findall(r"INSTANCE ([A-Za-z_0-9]+)", t)
    return sorted(seen - LIB)


def clauses_of(mods):
    out = []
    for m in mods:
        t = read(os.path.join(SPEC, m + ".tla"))
        if not m.startswith("Trace_"):
            found = re.findall(r'->\s*"([A-Z][a-z]+[A-Z][A-Za-z0-9]+)"', t) if "ClauseOf" in t else []
            m2 = re.search(r"^ClauseNames == <<(.*?)>>", t, re.M | re.S)
            if m2:
                found += re.findall(r'"([A-Za-z0-9]+)"', m2.group(1))
        else:
            found = None
        for c in found if found is not None else re.findall(r'Chk\("([A-Za-z0-9]+)"', t) + re.findall(r'Clause\("([A-Za-z0-9]+)"', t) + re.findall(r'(?:THEN|ELSE)\s*\(?(?:IF [^"]*THEN )?"([A-Z][a-z]+[A-Z][A-Za-z0-9]+)"', t):
            if c not in out:
                out.append(c)
    return out


def main():
    print("| prop | specification modules | binding | spec lines | clause names found in its Trace module(s) |")
    print("|---|---|---|---|---|")
    for k in range(1, 21):
        pid = "C%02d" % k
        mods = modules_of(pid)
        lines = sum(read(os.path.join(SPEC, m + ".tla")).count("\n") for m in mods)
        shown = [m for m in mods if not m.startswith("MC_") and not m.startswith("Gen")] + \
                [m for m in mods if m.startswith("MC_")]
        print("| %s | %s | %s | %d | %s |" % (pid, ", ".join(shown), BINDING[pid], lines, ", ".join(clauses_of(mods))))


if __name__ == "__main__":
    main()
