"""CLI: ./harness/check <ID> [--tier quick|thorough] [--replay path]"""
import argparse
import importlib
import json
import os
import sys
import traceback

from . import core


def main():
    ap = argparse.ArgumentParser()
    ap.add_argument("pid")
    ap.add_argument("--tier", default=os.environ.get("VERIF_TIER") or "quick",
                    choices=["quick", "thorough"])
    ap.add_argument("--replay")
    a = ap.parse_args()
    if os.environ.get("VERIF_TIER") in ("quick", "thorough"):
        a.tier = os.environ["VERIF_TIER"]
    seed = int(os.environ.get("VERIF_SEED", "0") or 0)
    os.environ["BCTPY_VERIF"] = "1"
    os.environ.setdefault("PYTHONHASHSEED", "0")
    pid = a.pid.upper()
    try:
        mod = importlib.import_module("harness.props." + pid.lower())
    except ImportError as e:
        print("no check for %s: %s" % (pid, e))
        return 2
    ctx = core.Ctx(pid, a.tier, seed, replay=a.replay)
    try:
        if a.replay:
            with open(a.replay) as f:
                rp = json.load(f)
            rc = mod.replay(ctx, rp)
        else:
            rc = mod.run(ctx)
        return rc
    except core.MachineryError as e:
        print("MACHINERY-ERROR %s: %s" % (pid, e))
        return 2
    except Exception:
        traceback.print_exc()
        print("MACHINERY-ERROR %s: unexpected exception" % pid)
        return 2


if __name__ == "__main__":
    sys.exit(main())
