"""Call-sequence probes, installed in every pool worker (harness/pool.py).

The drivers judge one call at a time.  A library can also go wrong BETWEEN calls: results that alias a
module-level workspace and are overwritten by the next call, caches keyed on the identity of an array
that the caller has since edited in place, work buffers left dirty by a call that was interrupted.
Three probes, all of them ordinary caller behaviour, none of them a verdict by itself:

retain  the arrays returned by the public calls of one job are kept (reference + snapshot taken when the
        job has ended, i.e. after the driver is done with them); when the NEXT job of the same worker
        has ended they must still equal their snapshot.  A difference is reported with the next job's
        record (`session_flags`), judged by TLC through spec/Trace_Session.tla (EarlierResultsIntact).
reuse   (opt-in) a caller that refills one array in place: the first matrix argument is copied into a
        per-(function, shape, dtype) buffer that persists across calls and the buffer is passed instead
        (in-place effects are copied back, a returned buffer is mapped back to the caller's array).
        Wrong results then show in the driver's ordinary clauses.
abort   (opt-in) a caller that interrupts a call (Ctrl-C, a time-out): now and then a sacrificial call
        with copied arguments is run first and aborted by an exception raised from a trace hook after a
        drawn number of lines inside bct; the real call follows and is judged as usual.

zerod   (always on, 10 % of the calls) a caller whose scalar options are 0-d arrays (np.asarray(0.3), values
        read back from .npz / .mat files): a sacrificial call with copied arguments whose python int /
        float options (never `seed`) are 0-d arrays; afterwards those arrays must hold their values
        (an augmented assignment `p /= 2` on a parameter writes through to the caller's object).
        Flag kind option_array_modified, clause OptionArraysIntact.
strict  (opt-in, 15 % of the calls) a caller who runs with np.seterr(divide='raise', invalid='raise'): the real call runs
        under that errstate; a routine that computes x/0 or 0/0 outside an errstate of its own then
        raises FloatingPointError instead of returning, which the driver's Returns clause reports.
        Enabled only for the drivers whose routines are clean in this respect on the unchanged tree
        (not: signed modularity, null models, randomizer_bin_und, flow_coef_bd - see DESIGN 7).
ignore  (always on, 15 % of the calls) a caller who has silenced floating-point warnings: the real call
        runs under np.errstate(all='ignore'); results must not depend on a warning being emitted.

print   (always on) every worker runs with np.set_printoptions(threshold=5, edgeitems=2).

Only functions looked up in the `bct` package namespace are wrapped (that is how the drivers call
them); calls between bct's own modules are untouched.
"""
import functools
import os as _os
import random
import sys
import types

import numpy as np

HELD = []          # [(function name, array, snapshot or None)]
FLAGS = []
BUFS = {}
MODE = dict(reuse=False, abort=False, strict_fp=False)
RNG = random.Random(20260927)
_INSTALLED = [False]
_DEPTH = [0]
_PREV_JOB = [None]


class _Abort(BaseException):
    pass


def _arrays(x, depth=0):
    if isinstance(x, np.ndarray):
        if x.size and x.dtype.kind in "biuf":
            yield x
    elif isinstance(x, (tuple, list)) and depth < 2:
        for y in x:
            for z in _arrays(y, depth + 1):
                yield z


def _sacrifice(f, args, kw):
    """one aborted call on copies of the arguments"""
    import copy
    import random as pyrandom
    from bct.utils import miscellaneous_utilities as mu

    def dup(v):
        if isinstance(v, np.ndarray):
            return v.copy()
        try:
            return copy.deepcopy(v)          # scripted / seeded generators: the real call gets its own
        except Exception:                    # noqa: BLE001
            return v
    a2 = [dup(a) for a in args]
    k2 = {k: dup(v) for k, v in kw.items()}
    gstate, pstate = np.random.get_state(), pyrandom.getstate()
    sinks = list(getattr(mu, "_verif_sinks", []))
    if hasattr(mu, "_verif_sinks"):
        del mu._verif_sinks[:]               # the aborted call is not part of any recorded trace
    budget = [RNG.choice([3, 10, 30, 100, 300, 1000, 3000])]

    def tracer(frame, event, arg):
        if "/bct/" not in frame.f_code.co_filename:
            return None

        def local(fr, ev, ar):
            if ev == "line":
                budget[0] -= 1
                if budget[0] <= 0:
                    raise _Abort()
            return local
        return local
    old = sys.gettrace()
    sys.settrace(tracer)
    try:
        f(*a2, **k2)
    except _Abort:
        pass
    except BaseException as e:           # noqa: BLE001 - whatever the call raises on its own is its business
        if type(e).__name__ == "CallTimeout":
            raise
    finally:
        sys.settrace(old)
        np.random.set_state(gstate)
        pyrandom.setstate(pstate)
        if hasattr(mu, "_verif_sinks"):
            mu._verif_sinks[:] = sinks


def _zero_d_probe(name, f, args, kw):
    import copy
    import random as pyrandom
    from bct.utils import miscellaneous_utilities as mu

    def dup(v):
        if isinstance(v, np.ndarray):
            return v.copy()
        try:
            return copy.deepcopy(v)
        except Exception:                    # noqa: BLE001
            return v
    watch = []

    def opt(key, v):
        if type(v) in (int, float) and key != "seed":
            z = np.array(v)
            watch.append((key, z, v))
            return z
        return dup(v)
    a2 = [opt("arg%d" % i, a) if i else dup(a) for i, a in enumerate(args)]
    k2 = {k: opt(k, v) for k, v in kw.items()}
    if not watch:
        return
    gstate, pstate = np.random.get_state(), pyrandom.getstate()
    sinks = list(getattr(mu, "_verif_sinks", []))
    if hasattr(mu, "_verif_sinks"):
        del mu._verif_sinks[:]
    try:
        f(*a2, **k2)
    except BaseException as e:           # noqa: BLE001 - a routine may not take 0-d arrays: no verdict on that
        if type(e).__name__ == "CallTimeout":
            raise
    finally:
        np.random.set_state(gstate)
        pyrandom.setstate(pstate)
        if hasattr(mu, "_verif_sinks"):
            mu._verif_sinks[:] = sinks
    for key, z, v in watch:
        if z.shape != () or not np.array_equal(z, np.array(v), equal_nan=True):     # (an option may be nan)
            FLAGS.append(dict(kind="option_array_modified", of=name + ":" + key, modified=1,
                              earlier_job="value %r became %r" % (v, z.tolist() if z.size < 5 else "...")))


def _wrap(name, f):
    @functools.wraps(f)
    def w(*args, **kw):
        if _DEPTH[0]:                        # a public function calling another one through the package
            return f(*args, **kw)
        _DEPTH[0] += 1
        try:
            # a held result handed back to the library is the caller's to change from now on
            ins = [a for a in list(args) + list(kw.values()) if isinstance(a, np.ndarray)]
            if ins and HELD:
                HELD[:] = [h for h in HELD if not any(np.may_share_memory(h[1], a) for a in ins)]
            if MODE["abort"] and RNG.random() < 0.03:
                _sacrifice(f, args, kw)
            if RNG.random() < 0.10:
                _zero_d_probe(name, f, args, kw)
            quiet = RNG.random() < 0.15
            back = None
            if MODE["reuse"] and args and isinstance(args[0], np.ndarray) and args[0].ndim == 2 \
                    and args[0].flags.c_contiguous and args[0].flags.owndata and args[0].flags.writeable \
                    and args[0].shape[0] == args[0].shape[1] and RNG.random() < 0.5:
                A = args[0]
                key = (name, A.shape, A.dtype.str)
                buf = BUFS.get(key)
                if buf is None:
                    buf = BUFS[key] = np.empty_like(A)
                np.copyto(buf, A)
                args = (buf,) + tuple(args[1:])
                back = (A, buf)
            if _os.environ.get("VERIF_PROBE_RAISE") or (MODE["strict_fp"] and not quiet and RNG.random() < 0.15):
                # a caller who runs with np.seterr(all='raise') (VERIF_PROBE_RAISE: every call, developer use)
                # (divide and invalid only: underflow and overflow to 0 / inf are ordinary outcomes of
                #  e.g. exp and products of tiny eigenvector entries and nobody's slip)
                with np.errstate(divide="raise", invalid="raise"):
                    res = f(*args, **kw)
            elif quiet:
                with np.errstate(all="ignore"):
                    res = f(*args, **kw)
            else:
                res = f(*args, **kw)
            if back is not None:
                A, buf = back
                np.copyto(A, buf)                 # in-place effects belong to the caller's array
                if res is buf:
                    res = A
                elif isinstance(res, tuple):
                    res = tuple(A if x is buf else x for x in res)
                # results that are views of the buffer would be overwritten by the next refill: detach
                if isinstance(res, np.ndarray) and res is not A and np.may_share_memory(res, buf):
                    res = res.copy()
                elif isinstance(res, tuple):
                    res = tuple(x.copy() if isinstance(x, np.ndarray) and x is not A and
                                np.may_share_memory(x, buf) else x for x in res)
            for a in _arrays(res):
                if not any(np.may_share_memory(a, b) for b in ins) and len(HELD) < 64:
                    HELD.append((name, a, None))
            return res
        finally:
            _DEPTH[0] -= 1
    w._session_wrapped = True
    return w


def install(reuse=False, abort=False, strict_fp=False):
    MODE["reuse"], MODE["abort"], MODE["strict_fp"] = bool(reuse), bool(abort), bool(strict_fp)
    if _INSTALLED[0]:
        return
    # a caller with short print options (a common notebook setting): the text form of an array is then
    # abbreviated from 6 items on - code that keys a cache or a comparison on str(array) shows
    np.set_printoptions(threshold=5, edgeitems=2)
    import bct
    for name in dir(bct):
        f = getattr(bct, name)
        if isinstance(f, types.FunctionType) and not name.startswith("_") and \
                (getattr(f, "__module__", "") or "").startswith("bct") and not getattr(f, "_session_wrapped", False):
            setattr(bct, name, _wrap(name, f))
    _INSTALLED[0] = True


def end_of_job(job):
    """called by the pool after every exec_job: (1) results of the PREVIOUS job must equal their snapshot,
    (2) results of this job get their snapshot now.  -> list of flags for this job's record"""
    flags = []
    keep = []
    for name, arr, snap in HELD:
        if snap is None:
            keep.append((name, arr, arr.copy()))
        else:
            if arr.shape != snap.shape or not np.array_equal(arr, snap, equal_nan=(arr.dtype.kind == "f")):
                flags.append(dict(kind="earlier_result_modified", of=name, modified=1,
                                  earlier_job=_short(_PREV_JOB[0])))
    HELD[:] = keep[-24:]
    _PREV_JOB[0] = job
    flags += FLAGS
    del FLAGS[:]
    return flags


def _short(job):
    try:
        s = repr(job)
        return s if len(s) < 4000 else s[:4000] + "..."
    except Exception:                        # noqa: BLE001
        return "?"
