"""Shared driver for the community-detection family (C02, C07): one real call with the
'move'/'level' hook sink installed, encoded for spec/Trace_Louvain.tla."""
import numpy as np

from . import encode, rng as rngmod

KIND = {
    "modularity_louvain_und": "und", "modularity_finetune_und": "und",
    "modularity_louvain_dir": "dir", "modularity_finetune_dir": "dir",
    "modularity_louvain_und_sign": "sign", "modularity_finetune_und_sign": "sign",
    "modularity_probtune_und_sign": "prob", "community_louvain": "cl",
    "modularity_und": "und", "modularity_dir": "dir",
}
TAKES_START = {"modularity_finetune_und", "modularity_finetune_dir", "modularity_finetune_und_sign",
               "modularity_probtune_und_sign", "community_louvain"}


def _typed(job, W):
    """the matrix as the caller might hold it (integer types, Fortran order); values unchanged"""
    dt = job.get("dtype")
    if dt:
        Wt = W.astype({"int": int}.get(dt, dt))
        if np.array_equal(Wt.astype(float), W):        # lossless casts only (bool: 0/1 networks, uint8: no negative weight)
            W = Wt
    if job.get("layout") == "F":
        W = np.asfortranarray(W)
    return W


def _call(bct, job, rng, start):
    fn = job["fn"]
    W = _typed(job, np.array(job["W"], dtype=float))
    # guard-boundary inputs: connections perturbed by about 1e-9 in the REAL call only (the record keeps
    # the integer matrix; Trace_Louvain reads r.noisy and turns strict comparisons into non-strict ones)
    for a, b, d in job.get("noise") or []:
        W[a, b] += d
    if start is not None and job.get("start_type"):
        start = {"list": list, "float": lambda c: np.array(c, dtype=float),
                 "int32": lambda c: np.array(c, dtype=np.int32)}[job["start_type"]](start)
        if job["start_type"] == "list":
            start = [int(x) for x in start]
    gamma = job["gn"] / job["gd"]
    f = getattr(bct, fn)
    if fn in ("modularity_louvain_und", "modularity_louvain_dir"):
        return f(W, gamma=gamma, hierarchy=bool(job.get("hierarchy")), seed=rng)
    if fn == "modularity_louvain_und_sign":
        return f(W, gamma=gamma, qtype=job["qtype"], seed=rng)
    if fn in ("modularity_finetune_und", "modularity_finetune_dir"):
        return f(W, ci=None if start is None else np.asarray(start), gamma=gamma, seed=rng)
    if fn in ("modularity_finetune_und_sign", "modularity_probtune_und_sign"):
        return f(W, qtype=job["qtype"], gamma=gamma, ci=None if start is None else np.asarray(start), seed=rng)
    if fn == "community_louvain":
        return f(W, gamma=gamma, ci=None if start is None else np.asarray(start), B=job["objective"], seed=rng)
    if fn in ("modularity_und", "modularity_dir"):
        return f(W, gamma=gamma)
    raise ValueError(fn)


def exec_job(job):
    import bct
    from bct.utils import miscellaneous_utilities as mu
    fn = job["fn"]
    W = np.array(job["W"], dtype=float)
    n = len(W)
    if job.get("given"):
        return exec_given(bct, job)
    kind = KIND[fn]
    rec = dict(fn=fn, prop=job["prop"], kind="sign" if kind == "prob" and False else kind, n=n,
               W=encode.mat_int(W), gn=job["gn"], gd=job["gd"], qtype=job.get("qtype", ""),
               objective=job.get("objective", ""), start=[int(x) for x in (job.get("start") or [])],
               raised="", malformed="", events=[], ci_out=[], q_out=0, hier_ci=[], hier_q=[],
               fed_ci=[], level_q_comparable=1, expect_ci=[], expect_qnum=0, expect_qden=0,
               script_status="none", noisy=int(bool(job.get("noise"))))
    if fn == "modularity_probtune_und_sign":
        rec["kind"] = "prob"
    events = []
    s_total = float(W.sum())
    renorm = fn == "community_louvain" and job.get("objective") in ("negative_sym", "negative_asym")

    def sink(ev, f):
        if f.get("fn") != fn:
            return
        if ev == "move":
            events.append(dict(ev="move", u=int(f["u"]) + 1, ma=int(f["ma"]) + 1, mb=int(f["mb"]) + 1,
                               gain=float(f["gain"]), labels=[int(x) for x in f["labels"]],
                               forced=int(bool(f.get("forced", False))), ci=[], q=0))
        elif ev == "level":
            q = float(f["q"])
            if fn == "community_louvain" and not renorm:
                q = q / s_total
            events.append(dict(ev="level", ci=[int(x) for x in f["ci"]], q=q, u=0, ma=0, mb=0, gain=0.0,
                               labels=[], forced=0))

    if job.get("script") is not None:
        r = rngmod.ScriptedRNG(job["script"], fallback_seed=job.get("seed", 1))
    else:
        r = rngmod.RecordingRNG(job["seed"])
    mu._verif_sinks.append(sink)
    try:
        out = _call(bct, job, r, job.get("start"))
    except Exception as e:
        rec["raised"] = encode.exc_name(e)
        try:
            for ev in events:
                ev["gain"] = encode.e_q(ev["gain"])
                ev["q"] = encode.e_q(ev["q"])
            rec["events"] = events
        except (ValueError, TypeError):
            rec["events"] = []
        return rec
    finally:
        mu._verif_sinks.remove(sink)
    try:
        ci, q = out
        if job.get("hierarchy"):
            ci = np.atleast_2d(np.array(ci))
            rec["hier_ci"] = [[encode.e_int(x) for x in row] for row in ci]
            rec["hier_q"] = [encode.e_q(x) for x in q]
            if len(rec["hier_ci"]):
                rec["ci_out"] = rec["hier_ci"][-1]
                rec["q_out"] = rec["hier_q"][-1]
            else:
                rec["malformed"] = "empty hierarchy"
        else:
            rec["ci_out"] = [encode.e_int(x) for x in np.array(ci).ravel()]
            rec["q_out"] = encode.e_q(q)
        for e in events:
            e["gain"] = encode.e_q(e["gain"])
            e["q"] = encode.e_q(e["q"])
        rec["events"] = events
    except (ValueError, TypeError) as e:
        rec["malformed"] = str(e)
        return rec
    if isinstance(r, rngmod.ScriptedRNG):
        rec["script_status"] = r.status()
        if r.status() == "followed" and job.get("expect"):
            rec["expect_ci"] = job["expect"]["ci"]
            rec["expect_qnum"] = job["expect"]["qnum"]
            rec["expect_qden"] = job["expect"]["qden"]
    # feeding the output back as the starting partition (routines that take one)
    if job.get("feedback") and fn in TAKES_START and rec["ci_out"] and not rec["malformed"]:
        try:
            ci2, q2 = _call(bct, job, np.random.RandomState(job.get("seed", 1) + 1), rec["ci_out"])
            rec["fed_ci"] = [encode.e_int(x) for x in np.array(ci2).ravel()]
        except Exception as e:
            rec["raised"] = "feedback:" + encode.exc_name(e)
    return rec


def exec_given(bct, job):
    fn = job["fn"]
    W = np.array(job["W"], dtype=float)
    n = len(W)
    rec = dict(fn=fn + "[kci]", prop=job["prop"], kind="given", n=n, W=encode.mat_int(W), gn=job["gn"],
               gd=job["gd"], qtype=job.get("qtype", ""), objective="", start=[int(x) for x in job["start"]],
               raised="", malformed="", events=[], ci_out=[], q_out=0, hier_ci=[], hier_q=[], fed_ci=[],
               level_q_comparable=1, expect_ci=[], expect_qnum=0, expect_qden=0, script_status="none", noisy=0)
    # the partition as the caller holds it (seed round 7): 1-D array, python list / tuple, float labels,
    # a 1 x n row vector (scipy.io.loadmat of a MATLAB vector) - the forms for which the unchanged
    # routines return the value of the 1-D call (sampled 300 calls; not the n x 1 column, not the row for
    # modularity_und_sign: both raise)
    form = job.get("start_form", "array")
    part = {"array": np.array, "list": lambda c: [int(x) for x in c], "tuple": lambda c: tuple(int(x) for x in c),
            "float": lambda c: np.array(c, dtype=float),
            "row": lambda c: np.array(c).reshape(1, -1)}[form](job["start"])
    try:
        if fn == "modularity_und_sign":
            ci, q = bct.modularity_und_sign(W, part, qtype=job["qtype"])
        else:
            ci, q = getattr(bct, fn)(W, gamma=job["gn"] / job["gd"], kci=part)
    except Exception as e:
        rec["raised"] = encode.exc_name(e)
        return rec
    try:
        rec["ci_out"] = [encode.e_int(x) for x in np.array(ci).ravel()]
        rec["q_out"] = encode.e_q(q)
    except (ValueError, TypeError) as e:
        rec["malformed"] = str(e)
    return rec
