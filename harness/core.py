"""Harness core: TLC runners, batch trace validation, verdict policy, evidence.

Python here only (i) calls bctpy, (ii) encodes numbers for TLC, (iii) keeps
books.  Every judgement about a property is a TLA+ expression evaluated by TLC
(spec/*.tla); see DESIGN.md sections 3-4.
"""
import concurrent.futures
import json
import os
import re
import threading
import shutil
import subprocess
import sys
import time

VERIF = os.path.dirname(os.path.dirname(os.path.abspath(__file__)))
SPEC = os.path.join(VERIF, "spec")
REPO = os.environ.get("BCTPY_REPO", "/repo")
TLA_CP = "/opt/veriftools/tla/tla2tools.jar:/opt/veriftools/tla/CommunityModules-deps.jar"
NCPU = min(16, os.cpu_count() or 1)


class MachineryError(Exception):
    """The machinery could not decide (exit 2)."""


def log(*a):
    print(*a, flush=True)


class Ctx:
    def __init__(self, pid, tier, seed, replay=None):
        self.pid = pid
        self.tier = tier
        self.seed = seed
        self.replay = replay
        self.t0 = time.time()
        # VERIF_WORK_TAG (developer runs against scratch copies): separate work/replay/evidence
        # directories, so that such a run never disturbs a registered check or its evidence file
        self.tag = os.environ.get("VERIF_WORK_TAG", "")
        self.root = os.path.join(VERIF, ".work", "tag_" + self.tag) if self.tag else os.path.join(VERIF, ".work")
        self.work = os.path.join(self.root, pid + ("_replay" if replay else ""))
        shutil.rmtree(self.work, ignore_errors=True)
        os.makedirs(self.work, exist_ok=True)
        if not replay:
            shutil.rmtree(os.path.join(self.root, "replays", pid), ignore_errors=True)
        self.n_tlc = 0
        self.lock = threading.Lock()
        # evidence accumulators
        self.mc_runs = []          # dicts per TLC model-checking run
        self.val_runs = []         # dicts per validation batch
        self.states = 0
        self.transitions = 0
        self.traces = 0            # real executions validated by TLC
        self.evaluations = 0
        self.nontrivial = 0
        self.skipped = 0
        self.inconclusive = 0
        self.drift = {}
        self.samples = []
        self.assumptions = []
        self.extra = {}
        self.violations = []       # (fn, clause, klass, replay_path, what)
        self.known_hits = {}       # finding key -> count
        self.exhaustive = False
        self.rule = ""
        self.findings = load_findings(pid)

    @property
    def quick(self):
        return self.tier == "quick"

    # ------------------------------------------------------------------ TLC
    def _tlc(self, tla, cfg, tag, env=None, workers=NCPU, extra=(), timeout=3600):
        with self.lock:
            self.n_tlc += 1
            k = self.n_tlc
        meta = os.path.join(self.work, "tlc_%02d_%s" % (k, tag))
        os.makedirs(meta, exist_ok=True)
        cmd = ["java", "-XX:+UseParallelGC", "-Xmx8g", "-Xss64m", "-cp", TLA_CP, "tlc2.TLC",
               "-workers", str(workers), "-metadir", meta, "-noGenerateSpecTE",
               "-config", os.path.join(SPEC, cfg)] + list(extra) + [os.path.join(SPEC, tla)]
        e = dict(os.environ)
        if env:
            e.update(env)
        t = time.time()
        try:
            p = subprocess.run(cmd, cwd=SPEC, env=e, stdout=subprocess.PIPE,
                               stderr=subprocess.STDOUT, timeout=timeout, text=True)
        except subprocess.TimeoutExpired:
            raise MachineryError("TLC timed out after %ss: %s %s" % (timeout, tla, cfg))
        out = p.stdout
        with open(os.path.join(meta, "tlc.out"), "w") as f:
            f.write(out)
        shutil.rmtree(os.path.join(meta, "states"), ignore_errors=True)
        for d in os.listdir(meta):
            full = os.path.join(meta, d)
            if os.path.isdir(full):
                shutil.rmtree(full, ignore_errors=True)
        m = re.search(r"(\d+) states generated, (\d+) distinct states found", out)
        gen, dist = (int(m.group(1)), int(m.group(2))) if m else (0, 0)
        return dict(rc=p.returncode, out=out, generated=gen, distinct=dist,
                    wall=time.time() - t, outfile=os.path.join(meta, "tlc.out"))

    def mc(self, tla, cfg, tag=None, consts=None, timeout=3600, coverage=False, extra=(), workers=NCPU):
        """Exhaustive TLC run of a model; every INVARIANT/PROPERTY of the cfg must hold.

        A failure here means the *model* does not satisfy the property, i.e. the
        specification is wrong: machinery error, never a VIOLATION of the code."""
        tag = tag or os.path.splitext(cfg)[0]
        if os.environ.get("VERIF_DEBUG_SKIP_MC"):      # developer convenience, never used by MANIFEST
            return None
        ex = list(extra)
        if coverage:
            ex += ["-coverage", "1"]
        r = self._tlc(tla, cfg, tag, timeout=timeout, extra=ex, workers=workers)
        ok = "Model checking completed. No error has been found." in r["out"]
        log("  mc %-28s %-8s generated=%d distinct=%d %.1fs" % (
            tag, "ok" if ok else "FAILED", r["generated"], r["distinct"], r["wall"]))
        if not ok:
            tail = "\n".join(r["out"].splitlines()[-40:])
            raise MachineryError("model %s/%s does not check:\n%s" % (tla, cfg, tail))
        if r["distinct"] == 0:
            raise MachineryError("model %s explored no state (vacuous)" % tag)
        self.states += r["distinct"]
        self.transitions += r["generated"]
        self.mc_runs.append(dict(model=tla, cfg=cfg, states_generated=r["generated"],
                                 distinct_states=r["distinct"], wall_s=round(r["wall"], 2)))
        return r

    def gen(self, tla, cfg, tag=None, timeout=3600, workers=NCPU, env=None, extra=()):
        """TLC run whose purpose is to print model inputs / behaviours (lines 'G|<json>')."""
        tag = tag or os.path.splitext(cfg)[0]
        r = self._tlc(tla, cfg, tag, timeout=timeout, workers=workers, env=env, extra=extra)
        if "No error has been found" not in r["out"] and "Finished in" not in r["out"]:
            raise MachineryError("gen %s failed:\n%s" % (tag, "\n".join(r["out"].splitlines()[-30:])))
        if "Error:" in r["out"]:
            raise MachineryError("gen %s failed:\n%s" % (tag, "\n".join(r["out"].splitlines()[-30:])))
        items = []
        for line in r["out"].splitlines():
            line = line.strip()
            if line.startswith('"G|'):
                items.append(json.loads(json.loads(line)[2:]))
        log("  gen %-27s items=%d generated=%d distinct=%d %.1fs" % (
            tag, len(items), r["generated"], r["distinct"], r["wall"]))
        self.states += r["distinct"]
        self.transitions += r["generated"]
        self.mc_runs.append(dict(model=tla, cfg=cfg, purpose="gen", items=len(items),
                                 states_generated=r["generated"], distinct_states=r["distinct"],
                                 wall_s=round(r["wall"], 2)))
        return items

    def validate(self, tla, cfg, records, tag=None, timeout=3600, chunk=4000):
        """Batch trace validation: every record is judged by TLC; returns a list of
        (clause, drift, klass) in record order.  Verdicts are total."""
        tag = tag or os.path.splitext(cfg)[0]
        all_records = records
        live = [k for k, r in enumerate(all_records) if not r.get("timeout")]
        records = [all_records[k] for k in live]
        verdicts = self._validate(tla, cfg, records, tag, timeout, chunk)
        full = [("skip:timeout", "na", "any")] * len(all_records)
        for k, v in zip(live, verdicts):
            full[k] = v
        return full

    def _validate(self, tla, cfg, records, tag, timeout, chunk):
        verdicts = [None] * len(records)
        for lo in range(0, len(records), chunk):
            part = records[lo:lo + chunk]
            path = os.path.join(self.work, "trace_%s_%d.json" % (tag, lo))
            with open(path, "w") as f:
                json.dump(part, f)
            r = self._tlc(tla, cfg, "val_" + tag, env={"TRACE_FILE": path}, timeout=timeout)
            if "No error has been found" not in r["out"]:
                raise MachineryError("validation %s crashed (see %s):\n%s" % (
                    tag, r["outfile"], "\n".join(r["out"].splitlines()[-30:])))
            seen = 0
            for line in r["out"].splitlines():
                line = line.strip()
                if line.startswith('"V|'):
                    f = json.loads(line).split("|")
                    verdicts[lo + int(f[1]) - 1] = (f[2], f[3], f[4])
                    seen += 1
            if seen != len(part) or any(v is None for v in verdicts[lo:lo + len(part)]):
                raise MachineryError("validation %s: %d verdict lines for %d records (%s)" % (
                    tag, seen, len(part), r["outfile"]))
            self.states += r["distinct"]
            self.transitions += r["generated"]
            self.val_runs.append(dict(trace_spec=tla, records=len(part),
                                      states_generated=r["generated"],
                                      distinct_states=r["distinct"], wall_s=round(r["wall"], 2)))
            log("  validate %-22s records=%d %.1fs" % (tag, len(part), r["wall"]))
        self.traces += len(records)
        return verdicts

    def parallel(self, thunks, width=4):
        """Run independent TLC jobs (callables) concurrently; results in order.
        The first MachineryError is re-raised after all have finished."""
        with concurrent.futures.ThreadPoolExecutor(max_workers=width) as ex:
            futs = [ex.submit(t) for t in thunks]
            out, err = [], None
            for f in futs:
                try:
                    out.append(f.result())
                except MachineryError as e:
                    err = err or e
                    out.append(None)
        if err:
            raise err
        return out

    # ------------------------------------------------------- verdict policy
    def judge(self, jobs, records, verdicts, what=lambda j, r, c: ""):
        """Turn TLC's verdict lines into VIOLATION / KNOWN-FINDING bookkeeping."""
        verdicts = self.session_merge(records, verdicts)
        for job, rec, v in zip(jobs, records, verdicts):
            clause, drift, klass = v
            self.evaluations += 1
            if rec.get("timeout"):
                self.inconclusive += 1
                continue
            if drift not in ("na", "same", ""):
                key = "%s:%s" % (rec.get("fn", "?"), drift)
                self.drift[key] = self.drift.get(key, 0) + 1
            if clause == "ok":
                continue
            if clause.startswith("skip:"):
                self.skipped += 1
                continue
            fn = rec.get("fn", "?")
            fkey = match_finding(self.findings, fn, clause, klass)
            if fkey is not None:
                if fkey not in self.known_hits:
                    self.known_hits[fkey] = dict(count=0, first=dict(job=job, record=rec))
                self.known_hits[fkey]["count"] += 1
                continue
            key = (fn, clause, klass)
            if not any(x[:3] == key for x in self.violations):
                path = self.write_replay(job, rec, v)
                self.violations.append((fn, clause, klass, path, what(job, rec, clause)))
            else:
                for i, x in enumerate(self.violations):
                    if x[:3] == key:
                        break

    def session_merge(self, records, verdicts):
        """call-sequence probe (harness/session.py): records that carry `session_flags` (a result of the
        previous job changed while this job ran) are judged by TLC through Trace_Session.tla; that verdict
        replaces an "ok" / skipped one (a record that already fails a property clause keeps it)."""
        idx = [k for k, r in enumerate(records) if isinstance(r, dict) and r.get("session_flags")]
        self.extra["call_sequence_probe"] = dict(records_with_a_changed_earlier_result=len(idx))
        if not idx:
            return verdicts
        srecs = [dict(fn=records[k].get("fn", "?"), flags=records[k]["session_flags"]) for k in idx]
        sv = self.validate("Trace_Session.tla", "Trace_Session.cfg", srecs, tag="Trace_Session")
        out = list(verdicts)
        for k, v in zip(idx, sv):
            if v[0] != "ok" and (out[k][0] == "ok" or out[k][0].startswith("skip:")):
                out[k] = v
        return out

    def write_replay(self, job, rec, v):
        d = os.path.join(self.root, "replays", self.pid)
        os.makedirs(d, exist_ok=True)
        k = len(os.listdir(d))
        safe = re.sub(r"[^A-Za-z0-9_.\[\]~@-]", "_", "%s_%s" % (rec.get("fn", "x"), v[0]))
        path = os.path.join(d, "%s_%03d_%s.json" % (self.pid, k, safe))
        with open(path, "w") as f:
            json.dump(dict(property=self.pid, verdict=list(v), job=job, record=rec), f)
        return path

    def add_sample(self, kind, obj, limit=6):
        if len(self.samples) < limit:
            self.samples.append(dict(kind=kind, case=obj))

    # ------------------------------------------------------------- finishing
    def finish(self, level="model_checking"):
        total = max(1, self.evaluations)
        if self.inconclusive > 0.02 * total and self.inconclusive > 3:
            raise MachineryError("%d of %d real calls timed out (>2%%)" % (self.inconclusive, total))
        for fkey, h in sorted(self.known_hits.items()):
            f = self.findings[fkey]
            log("KNOWN-FINDING: property=%s %s fails %s on input class %s [%d records this run]: %s" % (
                self.pid, f["function"], f["clause"], f["input_class"], h["count"],
                f["what"][:160] + ("..." if len(f["what"]) > 160 else "")))
        for fn, clause, klass, path, what in self.violations:
            log("VIOLATION property=%s replay=%s" % (self.pid, path))
            log("  %s fails clause %s (input class %s) %s" % (fn, clause, klass, what))
        cov = dict(
            states=self.states, transitions=self.transitions,
            traces_validated_against_impl=self.traces,
            samples=self.samples or [dict(kind="none", case=None)],
            evaluations=self.evaluations,
            distinct_nontrivial=self.nontrivial,
            rule=self.rule,
            exhaustive=self.exhaustive,
            model_checking_runs=self.mc_runs,
            validation_runs=self.val_runs,
            skipped_out_of_domain=self.skipped,
            inconclusive_timeouts=self.inconclusive,
            drift=self.drift,
            known_findings_hit={k: v["count"] for k, v in self.known_hits.items()},
            violating_cases=[dict(function=a, clause=b, input_class=c, replay=d, what=e)
                             for a, b, c, d, e in self.violations],
            explanation=self.extra.pop("explanation", ""),
        )
        cov.update(self.extra)
        ev = dict(property_id=self.pid, tier=self.tier, seed=self.seed, level=level,
                  coverage=cov, assumptions=self.assumptions,
                  wall_s=round(time.time() - self.t0, 2), violations=len(self.violations))
        if not self.replay:
            evdir = os.path.join(self.root, "evidence") if self.tag else os.path.join(VERIF, "evidence")
            os.makedirs(evdir, exist_ok=True)
            with open(os.path.join(evdir, self.pid + ".json"), "w") as f:
                json.dump(ev, f, indent=1, default=str)
        log("%s %s: %d real executions judged by TLC, %d model states, %d violations, "
            "%d known-finding records, %d skipped, %d inconclusive, %.1fs" % (
                self.pid, self.tier, self.traces, self.states, len(self.violations),
                sum(v["count"] for v in self.known_hits.values()), self.skipped,
                self.inconclusive, time.time() - self.t0))
        return 1 if self.violations else 0


# ---------------------------------------------------------------- findings
def load_findings(pid):
    path = os.path.join(VERIF, "KNOWN_FINDINGS.json")
    if not os.path.exists(path):
        return {}
    with open(path) as f:
        data = json.load(f)
    out = {}
    for i, e in enumerate(data.get("findings", [])):
        if e["property"] == pid:
            out["%s/%s/%s/%s" % (e["property"], e["function"], e["clause"], e["input_class"])] = e
    return out


def match_finding(findings, fn, clause, klass):
    for key, e in findings.items():
        if e["function"] == fn and e["clause"] == clause and e["input_class"] == klass:
            return key
    return None
