"""Run real bctpy calls in worker processes with per-call time-outs."""
import importlib
import multiprocessing as mp
import os
import signal
import sys
import io
import contextlib

from . import core, session


class CallTimeout(BaseException):
    pass


def _alarm(signum, frame):
    raise CallTimeout()


SESSION = dict(reuse=False, abort=False, strict_fp=False)
OFF = [False]


def _init():
    os.environ["BCTPY_VERIF"] = "1"
    if core.REPO not in sys.path:
        sys.path.insert(0, core.REPO)
    signal.signal(signal.SIGALRM, _alarm)
    if not os.environ.get("VERIF_NO_SESSION") and not OFF[0]:
        session.install(**SESSION)


def _run(args):
    modname, job, limit = args
    mod = importlib.import_module(modname)
    signal.setitimer(signal.ITIMER_REAL, limit)
    try:
        with contextlib.redirect_stdout(io.StringIO()):
            rec = mod.exec_job(job)
    except CallTimeout:
        rec = dict(fn=job.get("fn", "?"), timeout=1)
    finally:
        signal.setitimer(signal.ITIMER_REAL, 0)
    if not os.environ.get("VERIF_NO_SESSION") and not OFF[0]:
        flags = session.end_of_job(job)
        if flags and isinstance(rec, dict):
            rec["session_flags"] = flags
    return rec


def run_jobs(modname, jobs, limit=20.0, procs=None, reuse=False, abort=False, strict_fp=False, probes=True):
    """exec_job(job) -> record for every job, in order.  A call that exceeds
    `limit` seconds yields {'timeout': 1} (inconclusive, never a violation).
    reuse / abort: the opt-in call-sequence probes of harness/session.py."""
    procs = procs or core.NCPU
    SESSION.update(reuse=reuse, abort=abort, strict_fp=strict_fp)
    OFF[0] = not probes        # probes=False: a driver that observes inner calls by its own recorder (x02)
    os.environ["BCTPY_VERIF"] = "1"
    os.environ.setdefault("PYTHONHASHSEED", "0")
    if len(jobs) <= 2 or procs == 1:
        _init()
        return [_run((modname, j, limit)) for j in jobs]
    ctx = mp.get_context("fork")
    with ctx.Pool(procs, initializer=_init) as pool:
        return pool.map(_run, [(modname, j, limit) for j in jobs],
                        chunksize=max(1, len(jobs) // (procs * 8)))
