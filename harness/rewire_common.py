"""Shared driver for the rewiring family (C01, C11, C06): runs one real call with the hook
sink installed and a scripted or recording RNG, and encodes it for spec/Trace_Rewire.tla."""
import random

import numpy as np

from . import encode, inputs, rng as rngmod

VARIANTS = {
    # fn: (dir, conn, latt, mask, signed)
    "randmio_und": (0, 0, 0, 0, 0),
    "randmio_und_connected": (0, 1, 0, 0, 0),
    "randmio_dir": (1, 0, 0, 0, 0),
    "randmio_dir_connected": (1, 1, 0, 0, 0),
    "latmio_und": (0, 0, 1, 0, 0),
    "latmio_und_connected": (0, 1, 1, 0, 0),
    "latmio_dir": (1, 0, 1, 0, 0),
    "latmio_dir_connected": (1, 1, 1, 0, 0),
    "randomize_graph_partial_und": (0, 0, 0, 1, 0),
    "randmio_und_signed": (0, 0, 0, 0, 1),
    "randmio_dir_signed": (1, 0, 0, 0, 1),
    # no edge-list hooks: judged on the returned matrix only (final clauses of Trace_Rewire)
    "randomizer_bin_und": (0, 0, 0, 0, 0),
}


def exec_job(job):
    import bct
    from bct.utils import miscellaneous_utilities as mu
    fn = job["fn"]
    dr, conn, latt, mask, signed = VARIANTS[fn]
    R0 = np.array(job["R0"], dtype=float)
    # weight magnitudes: multiplying every weight by a power of two changes neither signs nor which
    # weights are equal, so the record (and the specification) keep the small integers while the
    # real call sees weights of 256.., 2**40.. or 2**-560.. (products of such weights overflow narrow
    # integer types / underflow floats); outputs are divided back exactly
    p2 = job.get("pow2")
    scale = 2.0 ** p2 if p2 else 1.0
    R0 = R0 * scale
    # callers pass adjacency matrices of many types and layouts; the record keeps the values
    if job.get("dtype") in ("int", "int32", "int16", "uint8", "float32"):
        Rt = R0.astype({"int": int}.get(job["dtype"], job["dtype"]))
        if np.array_equal(Rt.astype(float), R0):      # lossless casts only (no negative value as uint8)
            R0 = Rt
    if job.get("dtype") == "bool" and np.isin(R0, (0, 1)).all():
        R0 = R0.astype(bool)
    if job.get("layout") == "F":
        R0 = np.asfortranarray(R0)
    elif job.get("layout") == "view":
        big = np.zeros((len(R0) + 2, len(R0) + 3), dtype=R0.dtype)
        big[1:-1, 2:-1] = R0
        R0 = big[1:-1, 2:-1]
    n = len(R0)
    rec = dict(fn=fn, prop=job["prop"], n=n, dir=dr, conn=conn, latt=latt, mask=mask, signed=signed,
               R0=encode.mat_int(np.array(job["R0"], dtype=float)),
               D=encode.mat_int(job["D"]) if job.get("D") else [],
               B=encode.mat_int((np.array(job["B"]) != 0).astype(int)) if job.get("B")
               else encode.mat_int(np.zeros((n, n))),
               raised="", malformed="", events=[], out=[], eff_out=-1, Rrp=[], ind_rp=[],
               zero_requested=0, expect_eff=-1, expect_R=[], script_status="none")
    events = []

    def sink(ev, f):
        if ev != "attempt" or f.get("fn") != fn:
            return
        e = dict(acc=int(f["acc"]), a=int(f["a"]) + 1, b=int(f["b"]) + 1, c=int(f["c"]) + 1,
                 d=int(f["d"]) + 1, eff=int(f["eff"]), e1=0, e2=0, i=[], j=[], R=[])
        if "i" in f and f["i"] is not None:
            e["e1"] = int(f["e1"]) + 1
            e["e2"] = int(f["e2"]) + 1
            e["i"] = [int(x) + 1 for x in f["i"]]
            e["j"] = [int(x) + 1 for x in f["j"]]
        if e["acc"]:
            e["R"] = np.array(f["R"], dtype=float) / scale      # snapshot now, encode later
        events.append(e)

    if job.get("script") is not None:
        r = rngmod.ScriptedRNG(job["script"], fallback_seed=job.get("seed", 1))
    else:
        r = rngmod.RecordingRNG(job["seed"])
    itr = job.get("itr")
    if itr is not None and not isinstance(itr, int):
        itr = float(itr)
    rec["zero_requested"] = int((itr == 0) if itr is not None else (job.get("maxswap") == 0))
    Rarg = R0.copy() if job.get("layout") != "view" else R0     # a view stays a view
    mu._verif_sinks.append(sink)
    try:
        f = getattr(bct, fn)
        if fn == "randomizer_bin_und":
            out = f(Rarg, job["alpha"], seed=r)
            eff = -1
            rec["zero_requested"] = int(job["alpha"] == 0)
        elif mask:
            out = f(Rarg, np.array(job["B"], dtype=float), job["maxswap"], seed=r)
            # the routine does not return its swap count; counting accepted hook events instead would
            # make the verdict depend on the hooks being complete (a rewrite may drop one): unknown
            eff = -1
        elif latt:
            D = np.array(job["D"], dtype=float) if job.get("D") else None
            if D is not None:
                # a caller-supplied distance matrix is typed by the caller (integer ring distances, a
                # float32 array ...): drawn from the job's own seed/script, lossless casts only
                dd = random.Random(repr((job.get("seed"), job.get("script"), job["R0"]))).choice(
                    ["float64", "float64", "int64", "int32", "float32", "F"])
                Dt = np.asfortranarray(D) if dd == "F" else D.astype(dd)
                if np.array_equal(Dt.astype(float), D):
                    D = Dt
            out, Rrp, ind_rp, eff = f(Rarg, itr, D=D, seed=r)
            rec["Rrp"] = encode.mat_int(np.array(Rrp, dtype=float) / scale)
            rec["ind_rp"] = [int(x) + 1 for x in ind_rp]
        else:
            out, eff = f(Rarg, itr, seed=r)
    except Exception as e:
        rec["raised"] = encode.exc_name(e)
        return rec
    finally:
        mu._verif_sinks.remove(sink)
    try:
        rec["out"] = encode.mat_int(np.array(out, dtype=float) / scale)
        rec["eff_out"] = int(eff)
        if len(events) > 400:
            rec["malformed"] = ""
            events = events[:400] if False else events
        for e in events:
            if e["acc"]:
                e["R"] = encode.mat_int(e["R"])
        rec["events"] = events
    except ValueError as e:
        rec["malformed"] = str(e)
    if isinstance(r, rngmod.ScriptedRNG):
        rec["script_status"] = r.status()
        if r.status() == "followed" and job.get("expect") is not None:
            rec["expect_eff"] = int(job["expect"]["eff"])
            rec["expect_R"] = job["expect"]["R"]
    return rec


# ------------------------------------------------------------------ inputs
def two_disjoint_edges(A, und):
    n = len(A)
    E = [(i, j) for i in range(n) for j in range(n) if A[i, j] != 0 and (not und or i < j)]
    for x in range(len(E)):
        for y in range(x + 1, len(E)):
            a, b = E[x]
            c, d = E[y]
            if len({a, b, c, d}) == 4:
                return True
    return False


def rand_input(rng, fn, n=None):
    dr, conn, latt, mask, signed = VARIANTS[fn]
    und = not dr
    n = n or rng.randint(5, 9)
    for _ in range(200):
        if conn:
            # sparse connected graphs: tree / ring plus few chords (most swaps must be rejected)
            A = np.zeros((n, n))
            order = list(range(n))
            rng.shuffle(order)
            shape = rng.choice(["tree", "ring", "dense"])
            if shape == "ring" or dr:
                for x in range(n):
                    u, v = order[x], order[(x + 1) % n]
                    A[u, v] = rng.randint(1, 3)
                    if und:
                        A[v, u] = A[u, v]
            else:
                for x in range(1, n):
                    u, v = order[x], order[rng.randrange(x)]
                    A[u, v] = A[v, u] = rng.randint(1, 3)
            extra = rng.randint(0, 3) if shape != "dense" else rng.randint(n, 2 * n)
            for _k in range(extra):
                u, v = rng.sample(range(n), 2)
                if A[u, v] == 0:
                    A[u, v] = rng.randint(1, 3)
                    if und:
                        A[v, u] = A[u, v]
        else:
            A = inputs.rand_graph(rng, n, rng.choice([0.15, 0.3, 0.5, 0.8]), und=und,
                                  wmax=rng.choice([1, 3]), signed=bool(signed))
        if signed:
            if (A > 0).any() and (A < 0).any():
                return A
            continue
        if two_disjoint_edges(A, und):
            # "weighted": a quarter of the inputs carry weights of both signs (+-1, or small integers
            # with exactly opposite values - sums of two weights then cancel)
            if rng.random() < 0.25:
                if rng.random() < 0.5:
                    A = np.sign(A)
                S = np.array([[rng.choice([-1, 1]) for _ in range(n)] for _ in range(n)])
                if und:
                    S = np.triu(S, 1) + np.triu(S, 1).T
                A = A * S
            # an infinite weight (a connection that can never be cut, a missing-value marker): the
            # randomisers only move weights around - it must come out as it went in
            if not latt and rng.random() < 0.06:
                ii, jj = np.nonzero(A)
                t = rng.randrange(len(ii))
                A[ii[t], jj[t]] = np.inf
                if und:
                    A[jj[t], ii[t]] = np.inf
            return A
    raise RuntimeError("no admissible input drawn for " + fn)


def model_to_job(fn, prop, item, itr=None, maxswap=None, altD=None):
    """A behaviour printed by RewireImpl in gen mode -> a scripted job."""
    job = dict(fn=fn, prop=prop, R0=item["R0"], script=[list(x) for x in item["script"]],
               expect=dict(R=item["R"], eff=item["eff"]), src="model-behaviour")
    dr, conn, latt, mask, signed = VARIANTS[fn]
    if mask:
        job["B"] = item["B"]
        job["maxswap"] = maxswap
    else:
        job["itr"] = itr
    if latt:
        n = len(item["R0"])
        job["script"] = [["perm", list(range(1, n + 1))]] + job["script"]
        if altD is not None:
            job["D"] = altD
    return job
