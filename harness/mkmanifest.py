"""Regenerates /verif/MANIFEST.json from the table below (keeps it schema-valid)."""
import json
import os
import subprocess

VERIF = os.path.dirname(os.path.dirname(os.path.abspath(__file__)))
ALL = ["C%02d" % i for i in range(1, 21)]

TRUSTED = ("Trusted base: TLC 1.8 and the CommunityModules Json/IOUtils overrides; the L0 definitions in "
           "spec/*.tla; the integer / 10^-6 fixed-point encoding of observed outputs (harness/encode.py) "
           "and the tolerances stated in the Trace_* modules; the bounded domains in DESIGN.md section 5. ")

CHECKS = {
    "C16": dict(
        text=("TLC proves exhaustively that the implementation-shaped edge-scan/set-merge machine "
              "(spec/MergeImpl.tla) yields exactly the reachability classes for every undirected graph on "
              "N<=5 (6 thorough) nodes, with partial-merge invariants at every scan step; every real "
              "get_components/number_of_components/distance_bin/breadthdist/reachdist execution on all "
              "those graphs (decorated with weights/diagonals), asymmetric inputs and random graphs up to "
              "12 nodes is then validated by TLC against the L0 definition (spec/Trace_Components.tla)."),
        design="5 C16",
        technique="TLA+ model (MergeImpl refines Components) checked by TLC + TLC validation of recorded real calls",
        note=TRUSTED + "Exhaustive only up to n=5/6; larger inputs are sampled."),
}

CHECKS.update({
    "C01": dict(
        text=("TLC checks the implementation-shaped machine of the rewiring loops (spec/RewireImpl.tla: edge "
              "list in np.where order, re-pick loops, 50% flip, rewiring/lattice/mask conditions, matrix and "
              "edge-list writes, attempts counter) for every variant on all graphs with N=4 (5 thorough): "
              "degree, weight-bag, diagonal, symmetry, out-strength, edge-list/matrix synchronisation, "
              "zero-eff invariants and refinement of the abstract swap, over every sequence of picks and "
              "flips; a permutation lemma covers the latticisers' re-indexing. Conformance both ways: "
              "TLC -simulate behaviours (draw scripts) are forced onto the real routines through a scripted "
              "RandomState and must reproduce the model's result; seeded real runs emit one hook event per "
              "attempt and TLC (spec/Trace_Rewire.tla) evaluates the property clauses on the logged matrix "
              "and edge list after every accepted swap and on the returned values."),
        design="5 C01",
        technique="TLA+ L2 machine model-checked by TLC; spec->code scripted replay and code->spec hook-trace validation by TLC",
        note=TRUSTED + "randomizer_bin_und is not covered by this check yet (see DESIGN). Weights are small integers."),
    "C11": dict(
        text=("TLC proves the two connectivity probes (frontier expansion with early exits, transcribed in "
              "spec/Rewire.tla) sound for every connected graph on 5 (6 thorough) nodes / strongly connected "
              "digraph on 4 nodes and every candidate swap, and checks ConnInv, the lattice-cost action "
              "property and the mask invariant along all behaviours of the constrained variants of the L2 "
              "machine. The same hooks/traces as C01 bind it to the code: connectivity is evaluated by TLC "
              "on the logged matrix after every accepted swap, lattice cost step by step and overall, mask "
              "cells, and BCTParamError for disconnected/asymmetric input."),
        design="5 C11",
        technique="TLA+ probe-soundness model + L2 machine checked by TLC; hook-trace validation and scripted replay",
        note=TRUSTED + "Directed probe soundness is exhaustive only for N=4; undirected latticisers are given symmetric D."),
    "C09": dict(
        text=("L0 triangle/triple enumeration definitions (spec/Clustering.tla) and the code's matrix-algebra "
              "pipelines as an L2 machine (ClusteringImpl) are proved equal by TLC on all small graphs "
              "(binary N<=5/6 undirected, N<=4 directed, cube-rational weights, signed); every real call of "
              "the eleven routines on all those graphs and on random graphs up to 10 nodes is validated by "
              "TLC against the exact rational definition (10^-6 fixed point, tolerance 2)."),
        design="5 C09",
        technique="TLA+ definitional oracle + statement-level L2 machine checked by TLC; TLC validation of recorded real calls",
        note=TRUSTED + "Weighted inputs restricted to cubes of small rationals so that cube roots are rational."),
})

REASON_TODO = "check not built yet in this round (planned, see DESIGN.md section 9); nothing is claimed"


def main():
    hooks_commits = []
    p = os.path.join(VERIF, "HOOK_COMMITS")
    if os.path.exists(p):
        hooks_commits = open(p).read().split()
    m = dict(
        version=1,
        setup_cmd="./harness/setup",
        hooks=dict(
            guard="BCTPY_VERIF",
            enable="BCTPY_VERIF=1 PYTHONPATH=/repo /venv/bin/python (bctpy is imported from /repo's working tree; no build step)",
            baseline_off_cmd="cd /repo && env -u BCTPY_VERIF /venv/bin/python -m pytest -ra -q -p no:cacheprovider --timeout=900 --continue-on-collection-errors",
            source_commits=hooks_commits,
            add_only=True),
        engines=[dict(name="tlc", path="/opt/veriftools/tla/tla2tools.jar",
                      serves_properties=sorted(CHECKS),
                      kind_free_text="explicit-state model checker for the TLA+ specifications in /verif/spec; "
                                     "also evaluates the trace specifications on recorded executions"),
                 dict(name="harness", path="/verif/harness",
                      serves_properties=sorted(CHECKS),
                      kind_free_text="Python driver: runs real bctpy calls (scripted RNG, hooks), encodes them, runs TLC")],
        checks=[],
        notes="See DESIGN.md. Known defects that are not repaired are listed in KNOWN_FINDINGS.json.",
        not_applicable=[],
    )
    for pid in ALL:
        if pid in CHECKS:
            c = CHECKS[pid]
            m["checks"].append(dict(
                property_id=pid,
                quick_cmd="./harness/check %s --tier quick" % pid,
                thorough_cmd="./harness/check %s --tier thorough" % pid,
                evidence_file="/verif/evidence/%s.json" % pid,
                replay_cmd_template="./harness/check %s --replay {path}" % pid,
                engine="tlc",
                level_claimed=dict(category=c.get("category", "model_checking"), text=c["text"],
                                   design_ref=c["design"]),
                level_note=c["note"],
                technique=c["technique"]))
        else:
            m["not_applicable"].append(dict(property_id=pid, reason=REASON_TODO))
    with open(os.path.join(VERIF, "MANIFEST.json"), "w") as f:
        json.dump(m, f, indent=1)
    print("MANIFEST.json: %d checks, %d not claimed" % (len(m["checks"]), len(m["not_applicable"])))


if __name__ == "__main__":
    main()
