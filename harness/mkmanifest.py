"""Regenerates /verif/MANIFEST.json from the table below (keeps it schema-valid)."""
import json
import os
import subprocess

VERIF = os.path.dirname(os.path.dirname(os.path.abspath(__file__)))
ALL = ["C%02d" % i for i in range(1, 21)]

TRUSTED = ("Trusted base: TLC 1.8 and the CommunityModules Json/IOUtils overrides; the L0 definitions in "
           "spec/*.tla; the integer / 10^-6 fixed-point encoding of observed outputs (harness/encode.py) "
           "and the tolerances stated in the Trace_* modules; the bounded domains in DESIGN.md section 5. ")

CHECKS = {
    "C16": dict(
        text=("TLC proves exhaustively that the implementation-shaped edge-scan/set-merge machine "
              "(spec/MergeImpl.tla) yields exactly the reachability classes for every undirected graph on "
              "N<=5 (6 thorough) nodes, with partial-merge invariants at every scan step; every real "
              "get_components/number_of_components/distance_bin/breadthdist/reachdist execution on all "
              "those graphs (decorated with weights/diagonals), asymmetric inputs and random graphs up to "
              "12 nodes is then validated by TLC against the L0 definition (spec/Trace_Components.tla)."),
        design="5 C16",
        technique="TLA+ model (MergeImpl refines Components) checked by TLC + TLC validation of recorded real calls",
        note=TRUSTED + "Exhaustive only up to n=5/6; larger inputs are sampled."),
}

REASON_TODO = "check not built yet in this round (planned, see DESIGN.md section 9); nothing is claimed"


def main():
    hooks_commits = []
    p = os.path.join(VERIF, "HOOK_COMMITS")
    if os.path.exists(p):
        hooks_commits = open(p).read().split()
    m = dict(
        version=1,
        setup_cmd="./harness/setup",
        hooks=dict(
            guard="BCTPY_VERIF",
            enable="BCTPY_VERIF=1 PYTHONPATH=/repo /venv/bin/python (bctpy is imported from /repo's working tree; no build step)",
            baseline_off_cmd="cd /repo && env -u BCTPY_VERIF /venv/bin/python -m pytest -ra -q -p no:cacheprovider --timeout=900 --continue-on-collection-errors",
            source_commits=hooks_commits,
            add_only=True),
        engines=[dict(name="tlc", path="/opt/veriftools/tla/tla2tools.jar",
                      serves_properties=sorted(CHECKS),
                      kind_free_text="explicit-state model checker for the TLA+ specifications in /verif/spec; "
                                     "also evaluates the trace specifications on recorded executions"),
                 dict(name="harness", path="/verif/harness",
                      serves_properties=sorted(CHECKS),
                      kind_free_text="Python driver: runs real bctpy calls (scripted RNG, hooks), encodes them, runs TLC")],
        checks=[],
        notes="See DESIGN.md. Known defects that are not repaired are listed in KNOWN_FINDINGS.json.",
        not_applicable=[],
    )
    for pid in ALL:
        if pid in CHECKS:
            c = CHECKS[pid]
            m["checks"].append(dict(
                property_id=pid,
                quick_cmd="./harness/check %s --tier quick" % pid,
                thorough_cmd="./harness/check %s --tier thorough" % pid,
                evidence_file="/verif/evidence/%s.json" % pid,
                replay_cmd_template="./harness/check %s --replay {path}" % pid,
                engine="tlc",
                level_claimed=dict(category=c.get("category", "model_checking"), text=c["text"],
                                   design_ref=c["design"]),
                level_note=c["note"],
                technique=c["technique"]))
        else:
            m["not_applicable"].append(dict(property_id=pid, reason=REASON_TODO))
    with open(os.path.join(VERIF, "MANIFEST.json"), "w") as f:
        json.dump(m, f, indent=1)
    print("MANIFEST.json: %d checks, %d not claimed" % (len(m["checks"]), len(m["not_applicable"])))


if __name__ == "__main__":
    main()
