"""Regenerates /verif/MANIFEST.json from the table below (keeps it schema-valid)."""
import json
import os
import subprocess

VERIF = os.path.dirname(os.path.dirname(os.path.abspath(__file__)))
ALL = ["C%02d" % i for i in range(1, 21)]

TRUSTED = ("Trusted base: TLC 1.8 and the CommunityModules Json/IOUtils overrides; the L0 definitions in "
           "spec/*.tla; the integer / 10^-6 fixed-point encoding of observed outputs (harness/encode.py) "
           "and the tolerances stated in the Trace_* modules; the bounded domains in DESIGN.md section 5; for the "
           "scale-regime records (130..1300 nodes, huge counts, near-threshold values: DESIGN 0.2) the cheaper "
           "operators that an MC invariant or ASSUME proves equal to the L0 definitions on all small instances. ")

CHECKS = {
    "C16": dict(
        text=("TLC proves exhaustively that the implementation-shaped edge-scan/set-merge machine "
              "(spec/MergeImpl.tla) yields exactly the reachability classes for every undirected graph on "
              "N<=5 (6 thorough) nodes, with partial-merge invariants at every scan step; every real "
              "get_components/number_of_components/distance_bin/breadthdist/reachdist execution on all "
              "those graphs (decorated with weights/diagonals), asymmetric inputs and random graphs up to "
              "12 nodes is then validated by TLC against the L0 definition (spec/Trace_Components.tla)."),
        design="5 C16",
        technique="TLA+ model (MergeImpl refines Components) checked by TLC + TLC validation of recorded real calls",
        note=TRUSTED + "Exhaustive only up to n=5/6; larger inputs are sampled."),
}

CHECKS.update({
    "C01": dict(
        text=("TLC checks the implementation-shaped machine of the rewiring loops (spec/RewireImpl.tla: edge "
              "list in np.where order, re-pick loops, 50% flip, rewiring/lattice/mask conditions, matrix and "
              "edge-list writes, attempts counter) for every variant on all graphs with N=4 (5 thorough): "
              "degree, weight-bag, diagonal, symmetry, out-strength, edge-list/matrix synchronisation, "
              "zero-eff invariants and refinement of the abstract swap, over every sequence of picks and "
              "flips; a permutation lemma covers the latticisers' re-indexing. Conformance both ways: "
              "TLC -simulate behaviours (draw scripts) are forced onto the real routines through a scripted "
              "RandomState and must reproduce the model's result; seeded real runs emit one hook event per "
              "attempt and TLC (spec/Trace_Rewire.tla) evaluates the property clauses on the logged matrix "
              "and edge list after every accepted swap and on the returned values."),
        design="5 C01",
        technique="TLA+ L2 machine model-checked by TLC; spec->code scripted replay and code->spec hook-trace validation by TLC",
        note=TRUSTED + "randomizer_bin_und has its own L2 machine (RandomizerImpl) and no hooks: judged on returned values. Weights are small integers (optionally signed, scaled by powers of two in the real call)."),
    "C11": dict(
        text=("TLC proves the two connectivity probes (frontier expansion with early exits, transcribed in "
              "spec/Rewire.tla) sound for every connected graph on 5 (6 thorough) nodes / strongly connected "
              "digraph on 4 nodes and every candidate swap, and checks ConnInv, the lattice-cost action "
              "property and the mask invariant along all behaviours of the constrained variants of the L2 "
              "machine. The same hooks/traces as C01 bind it to the code: connectivity is evaluated by TLC "
              "on the logged matrix after every accepted swap, lattice cost step by step and overall, mask "
              "cells, and BCTParamError for disconnected/asymmetric input."),
        design="5 C11",
        technique="TLA+ probe-soundness model + L2 machine checked by TLC; hook-trace validation and scripted replay",
        note=TRUSTED + "Directed probe soundness is exhaustive only for N=4; undirected latticisers are given symmetric D."),
    "C09": dict(
        text=("L0 triangle/triple enumeration definitions (spec/Clustering.tla) and the code's matrix-algebra "
              "pipelines as an L2 machine (ClusteringImpl) are proved equal by TLC on all small graphs "
              "(binary N<=5/6 undirected, N<=4 directed, cube-rational weights, signed); every real call of "
              "the eleven routines on all those graphs and on random graphs up to 10 nodes is validated by "
              "TLC against the exact rational definition (10^-6 fixed point, tolerance 2)."),
        design="5 C09",
        technique="TLA+ definitional oracle + statement-level L2 machine checked by TLC; TLC validation of recorded real calls",
        note=TRUSTED + "Weighted inputs restricted to cubes of small rationals so that cube roots are rational."),
})

CHECKS.update({
    "C02": dict(
        text=("TLC checks the implementation-shaped Louvain/finetune machine (spec/LouvainImpl.tla: incremental "
              "node-to-module sums as coded, sweep permutations as nondeterministic draws, arg-max with exact "
              "ties, relabel, aggregation, q[h] stop rule, integer gains) on all small weighted graphs, all "
              "start partitions and all visiting orders: bookkeeping, aggregation identity, gain = true delta, "
              "returned q = Q(returned partition) at every level. Bound to the code both ways: TLC -simulate "
              "behaviours are forced through a scripted RandomState and must return the model's (ci,q); real "
              "runs of all ten routines emit move/level hook events that TLC (spec/Trace_Louvain.tla) judges "
              "against the exact integer modularity (spec/Modularity.tla) for every gamma/qtype/objective. "
              "Generated behaviours also mark the states where the move guard is exactly at its boundary "
              "(gain 0); the real call is repeated with one connection perturbed by about 1e-9 so that the "
              "code runs just above / below its float thresholds."),
        design="5 C02",
        technique="TLA+ L2 Louvain machine model-checked by TLC; scripted replay + hook-trace validation against exact integer modularity",
        note=TRUSTED + "community_louvain (LouvainBImpl) and the signed routines (LouvainSImpl) have their own L2 machines. "
             "modularity_louvain_dir defects are listed in KNOWN_FINDINGS.json (pinned tests forbid the repair)."),
    "C07": dict(
        text=("Same specification, behaviours and traces as C02 with the C07 clause list: TLC proves on the L2 "
              "machine that every move strictly raises the exact Q, aggregation preserves it and the hierarchy is "
              "strictly increasing for every visiting order; on real executions TLC recomputes the exact Q before "
              "and after every hooked move (MoveRaisesQ), compares Q(returned) with Q(start) for random start "
              "partitions, checks hierarchy monotonicity and that feeding the output back never lowers Q."),
        design="5 C07",
        technique="TLA+ L2 Louvain machine (action properties) checked by TLC; per-move hook-trace validation with exact Q",
        note=TRUSTED + "Integer weights, gamma in {3/4,1,5/4}. modularity_louvain_dir is covered by known findings."),
    "C06": dict(
        text=("TLC checks the L2 machine of randmio_und_signed/randmio_dir_signed (every sequence of four-node "
              "picks) and an L1 machine of the null-model pipeline (sign-preserving rewiring, then dealing the "
              "weights by any bijection) for signed degrees, positive/negative weight bags, diagonal, symmetry. "
              "Scripted behaviours are replayed into the real routines; hook traces are validated step by step; "
              "null_model_*_sign outputs are judged by TLC including an exact integer form of the returned "
              "strength correlations (r^2 = cov^2/(vx*vy), sign of cov)."),
        design="5 C06",
        technique="TLA+ signed-swap machine checked by TLC; scripted replay, hook-trace validation, exact-integer correlation clause",
        note=TRUSTED + "The weight-dealing order of the null models is only modelled as 'any bijection'. |w|<=3, n<=6 for correlations."),
    "C03": dict(
        text=("L0 distances by min-plus fixpoint cross-checked against enumerated simple paths; L2 machines of the "
              "Dijkstra, Floyd-Warshall, algebraic, BFS and reachdist loops proved by TLC to terminate with the "
              "L0 distance / a true minimum-path hop count on all small (di)graphs with tie-rich lengths; every "
              "real call of the five routines, charpath, efficiency_bin/wei and rout_efficiency on those graphs and "
              "random ones up to 12 nodes is validated by TLC (exact integers / exact fractions)."),
        design="5 C03", technique="TLA+ definitional oracle + algorithm-shaped machines checked by TLC; TLC validation of recorded real calls",
        note=TRUSTED + "'log' transform checked in units of ln 2 (weights 2^-k); exhaustive weighted digraphs only for n=3."),
    "C12": dict(
        text=("TLC proves on the Floyd-Warshall machine that following Pmat for hops[s,t] steps is a real minimum "
              "path at every k, and checks the greedy-navigation machine's invariants; every path returned by "
              "retrieve_shortest_path (all s,t, each transform) and navigation_wu on enumerated and random inputs "
              "is validated edge by edge by TLC against the input matrix and the reported lengths."),
        design="5 C12", technique="TLA+ Floyd/navigation machines checked by TLC; TLC validation of every returned path",
        note=TRUSTED + "navigation_wu is only run with finite max_hops or on inputs where the spec predicts termination."),
    "C08": dict(
        text=("Two L0 definitions of shortest-path counts (path enumeration and distance-ordered DP) proved equal by "
              "TLC; Brandes-style L2 machines (queue filled from the back, unreachable nodes in the leading slots, "
              "dependency back-propagation with exact fractions) and the matrix-power scheme of betweenness_bin "
              "proved equal to the definition on all small graphs; every real call of the four routines is "
              "validated by TLC against the exact fraction, plus sum identities."),
        design="5 C08", technique="TLA+ definitional oracle + Brandes machines checked by TLC; TLC validation of recorded real calls",
        note=TRUSTED + "Directed N=4 with two lengths capped at 5 edges in the thorough model."),
    "C10": dict(
        text=("The table of weighted/binary, directed/undirected and weight-ignoring routine pairs is data in "
              "spec/Relations.tla; TLC proves the reductions on the L0 operators and judges every recorded pair of "
              "real outputs on all 0/1 digraphs n<=4, undirected n<=5, symmetric weighted and random matrices."),
        design="5 C10", technique="TLA+ relation table; TLC lemma checking on L0 operators and validation of recorded output pairs",
        note=TRUSTED + "Relational: a defect changing both members identically is out of reach here (covered by C03/C08/C09)."),
    "C14": dict(
        text=("TLC enumerates all 52 partitions of 5 nodes x injective relabellings into a pool of contiguous, "
              "zero-based, negative, gapped and large labels, proves SamePartition is the intended equivalence, and "
              "judges every recorded pair f(W,ci), f(W,relabel(ci)) plus the partition_distance and ci2ls/ls2ci "
              "clauses."),
        design="5 C14", technique="TLA+ relabelling relation; TLC enumeration of partitions x relabellings and validation of recorded pairs",
        note=TRUSTED + "gateway_coef_sign is a known finding (pinned test forbids the repair). Entropies judged relationally only."),
    "C15": dict(
        text=("CoreSet is defined by subset enumeration (uniqueness asserted); the peeling machine of kcore_bu/bd, "
              "score_wu and the coreness loop is proved by TLC to return it on all small graphs (half-integer s "
              "grid); every real call incl. nestedness across k, coreness and peel order is validated by TLC."),
        design="5 C15", technique="TLA+ subset-maximality definition + peeling machine checked by TLC; TLC validation of recorded real calls",
        note=TRUSTED + "n>5 judged with the peeling operator proved equal to CoreSet in mc."),
    "C17": dict(
        text=("Exact-count/strongest-set semantics with teacher's rounding on rationals and tie-tolerant Keep "
              "families in spec/Threshold.tla; a selection machine proved legal by TLC; every real call of the "
              "thresholding and weight-conversion utilities (ties, sparse supports, .5 boundaries, copy flags) on "
              "enumerated and random matrices is validated by TLC."),
        design="5 C17", technique="TLA+ contract + selection machine checked by TLC; TLC validation of recorded real calls",
        note=TRUSTED + "Weights are integers over denominators 1, 2, 4."),
})

CHECKS.update({
    "C18": dict(
        category="other",
        text=("findwalks is decided exactly: an L2 machine of its loop and a one-variable walker machine are "
              "proved by TLC to count walks = integer matrix powers, and every real output is compared exactly. "
              "For the real-valued measures TLC evaluates, on the 10^-6 fixed-point outputs of real calls, the "
              "defining linear equations as integer residuals with spec-derived rounding budgets (MFPT, diffusion "
              "efficiency, PageRank; plus exact Cramer solutions where determinants fit in 32 bits), cross-product "
              "parallelism and Collatz-Wielandt bounds for the eigenvector, and exact partial sums of walk counts "
              "with a remainder bound for subgraph centrality; lemma models prove the budgets sound on all small "
              "inputs. This is residual/bound checking, not an accuracy proof: TLC has no reals."),
        design="5 C18, 7",
        technique="TLA+ walk-count machine model-checked by TLC; TLC evaluation of defining equations as integer residuals on recorded outputs",
        note=TRUSTED + "Tolerances 2e-6..3e-4 as stated in spec/Trace_RandomWalk.tla; n<=7, small integer weights; "
             "ill-conditioned inputs are out of reach."),
})

CHECKS.update({
    "C04": dict(
        text=("The group action (PermuteVec/PermuteMat/Equivariant per output kind) is specified in "
              "spec/Equivariance.tla; TLC proves Op(pi.A) = pi.Op(A) for the L0 operators of the other modules "
              "(degrees, reachability, components, Dist, MinHops, betweenness, the eleven clustering definitions, "
              "CoreSet) on all small graphs x all permutations, generates the permutations used by the harness, "
              "and judges every recorded pair f(A), f(A[p,p]) for ~75 deterministic measures (118 variants) of "
              "the registry on enumerated, random and highly symmetric graphs."),
        design="5 C04", technique="TLA+ group-action relation; TLC lemma checking on L0 operators and validation of recorded output pairs",
        note=TRUSTED + "Relational; 'has_repeated_structure' is a proxy for degenerate spectra. gateway_coef_sign is a known finding."),
    "C05": dict(
        text=("spec/RngDiscipline.tla models the global numpy stream, python's random and call histories with a "
              "well-behaved abstract library and eight misbehaving ones; TLC checks that each clause holds for the "
              "former and is violated by exactly the misbehaviours it should catch (matrix models), and enumerates "
              "the call histories that are then executed against all 37 seed-accepting routines; every recorded "
              "history (state fingerprints as tokens) is stepped through by TLC (Trace_RngDiscipline.tla)."),
        design="5 C05", technique="TLA+ history machine model-checked by TLC; TLC-generated call histories executed and validated as behaviours",
        note=TRUSTED + "Two inputs per routine; fingerprints (SHA-1 of states/results) are observations interned to tokens by the harness."),
    "C13": dict(
        text=("spec/CallerArrays.tla states the heap property over one call and TLC enumerates all 3608 programs of "
              "up to three calls over abstract function classes (pure, copy-flag utility, alias-returning) proving "
              "the statement on them and producing the program shapes; the harness instantiates them with every "
              "public function of the registry (148 callable rows) on arrays with non-zero diagonal, signed "
              "entries, arbitrary labels, int/float dtypes, also on raising inputs; TLC judges the recorded "
              "before/after fingerprints."),
        design="5 C13", technique="TLA+ heap/program model checked by TLC; TLC validation of recorded argument fingerprints for every public function",
        note=TRUSTED + "Fingerprints = SHA-1 of bytes+dtype+shape (observation). Functions that cannot be called offline are listed as uncovered in the evidence."),
    "C19": dict(
        text=("Exact t-statistic comparison by cross-multiplied integers, supra-threshold graph, components "
              "(Components.tla), link counts, labels and p-values in spec/Nbs.tla; an L2 machine of the permutation "
              "loop is checked by TLC for all draws on small instances (null = largest component, p-values, "
              "group/tail swap, reordering). TLC -simulate behaviours with permutation/sign scripts are replayed "
              "so that the returned null array is predicted exactly; seeded runs log every draw served and TLC "
              "recomputes every null entry."),
        design="5 C19", technique="TLA+ NBS machine model-checked by TLC; scripted replay and draw-logged trace validation with exact integer t-tests",
        note=TRUSTED + "Integer data 0..3, n<=7; exact ties t = thr accept either outcome; independence of the k draws is not judged."),
    "C20": dict(
        text=("Output contracts (shape, 0/1, diagonal, count, symmetry, row/column sums, ring-lattice band order) "
              "and L2 machines of the intended algorithms (RandImpl, RingLatticeImpl, DegreesFixedImpl: every "
              "permutation entry and repair draw a nondeterministic parameter) are checked by TLC for all small "
              "N, K and degree-sequence pairs; exhaustive and -simulate behaviours are replayed through scripted "
              "permutations into the real generators, seeded runs cover the rest; TLC judges every output."),
        design="5 C20", technique="TLA+ generator machines model-checked by TLC; scripted replay and TLC validation of generated matrices",
        note=TRUSTED + "maketoeplitzCIJ/makeevenCIJ/makefractalCIJ: contracts only (their draws are whole random matrices)."),
})

REASON_TODO = "check not built yet in this round (planned, see DESIGN.md section 9); nothing is claimed"


def main():
    hooks_commits = []
    p = os.path.join(VERIF, "HOOK_COMMITS")
    if os.path.exists(p):
        hooks_commits = open(p).read().split()
    m = dict(
        version=1,
        setup_cmd="./harness/setup",
        hooks=dict(
            guard="BCTPY_VERIF",
            enable="BCTPY_VERIF=1 PYTHONPATH=/repo /venv/bin/python (bctpy is imported from /repo's working tree; no build step)",
            baseline_off_cmd="cd /repo && env -u BCTPY_VERIF /venv/bin/python -m pytest -ra -q -p no:cacheprovider --timeout=900 --continue-on-collection-errors",
            source_commits=hooks_commits,
            add_only=True),
        engines=[dict(name="tlc", path="/opt/veriftools/tla/tla2tools.jar",
                      serves_properties=sorted(CHECKS),
                      kind_free_text="explicit-state model checker for the TLA+ specifications in /verif/spec; "
                                     "also evaluates the trace specifications on recorded executions"),
                 dict(name="harness", path="/verif/harness",
                      serves_properties=sorted(CHECKS),
                      kind_free_text="Python driver: runs real bctpy calls (scripted RNG, hooks), encodes them, runs TLC")],
        checks=[],
        notes="See DESIGN.md. Known defects that are not repaired are listed in KNOWN_FINDINGS.json.",
        not_applicable=[],
    )
    for pid in ALL:
        if pid in CHECKS:
            c = CHECKS[pid]
            m["checks"].append(dict(
                property_id=pid,
                quick_cmd="./harness/check %s --tier quick" % pid,
                thorough_cmd="./harness/check %s --tier thorough" % pid,
                evidence_file="/verif/evidence/%s.json" % pid,
                replay_cmd_template="./harness/check %s --replay {path}" % pid,
                engine="tlc",
                level_claimed=dict(category=c.get("category", "model_checking"), text=c["text"],
                                   design_ref=c["design"]),
                level_note=c["note"],
                technique=c["technique"]))
        else:
            m["not_applicable"].append(dict(property_id=pid, reason=REASON_TODO))
    with open(os.path.join(VERIF, "MANIFEST.json"), "w") as f:
        json.dump(m, f, indent=1)
    print("MANIFEST.json: %d checks, %d not claimed" % (len(m["checks"]), len(m["not_applicable"])))


if __name__ == "__main__":
    main()
