"""Model inputs (enumerated by TLC, spec/GenGraphs.tla) and seeded random inputs."""
import json
import os
import random

import numpy as np

from . import core


def model_graphs(ctx, kind, n):
    """All simple graphs of `kind` ('und'|'dir') on n nodes as edge lists (0-based),
    enumerated by TLC.  Cached per run under .work/."""
    cache = os.path.join(core.VERIF, ".cache")
    os.makedirs(cache, exist_ok=True)
    path = os.path.join(cache, "graphs_%s%d.json" % (kind, n))
    if not os.path.exists(path):
        tmp = path + ".%d.tmp" % os.getpid()
        r = ctx._tlc("GenGraphs.tla", "GenGraphs_%s%d.cfg" % (kind, n), "gen_%s%d" % (kind, n),
                     env={"GEN_FILE": tmp}, workers=4, timeout=900)
        if "No error has been found" not in r["out"] or not os.path.exists(tmp):
            raise core.MachineryError("GenGraphs %s%d failed: %s" % (kind, n, r["out"][-2000:]))
        os.replace(tmp, path)
    with open(path) as f:
        items = json.load(f)
    return [[(a - 1, b - 1) for a, b in e] for e in items]


def mat_from_edges(n, edges, und, w=None, dtype=float):
    A = np.zeros((n, n), dtype=dtype)
    for k, (i, j) in enumerate(edges):
        v = 1 if w is None else w[k]
        A[i, j] = v
        if und:
            A[j, i] = v
    return A


def rand_graph(rng, n, p, und=True, wmax=1, connected=False, signed=False):
    """Random matrix with integer weights 1..wmax (or signed), empty diagonal."""
    for _ in range(1000):
        A = np.zeros((n, n))
        for i in range(n):
            for j in range(i + 1 if und else 0, n):
                if i == j:
                    continue
                if rng.random() < p:
                    v = rng.randint(1, wmax)
                    if signed and rng.random() < 0.5:
                        v = -v
                    A[i, j] = v
                    if und:
                        A[j, i] = v
        if not connected or is_connected(A, und):
            return A
    raise core.MachineryError("could not draw a connected graph")


def is_connected(A, und):
    n = len(A)
    B = (A != 0)
    if und:
        B = B | B.T
    def reach(s, M):
        seen = {s}
        st = [s]
        while st:
            u = st.pop()
            for v in np.where(M[u])[0]:
                if v not in seen:
                    seen.add(int(v)); st.append(int(v))
        return seen
    if len(reach(0, B)) != n:
        return False
    if not und and len(reach(0, B.T)) != n:
        return False
    return True


def sample(rng, items, k):
    items = list(items)
    if len(items) <= k:
        return items
    return rng.sample(items, k)
