#!/bin/sh
# Unbounded induction for the swap operators (spec/ApaSwap.tla) with Apalache.
# usage: harness/apaswap.sh [N=4|5] [timeout seconds]
#   prints one line per kind and obligation, exit 0 iff all hold.
# One process per kind (dir und sdir sund) and per obligation
#   base: Init => IndInv                     (--length=0)
#   step: IndInv /\ Next => IndInv'          (--init=IndInit --length=1, invariants checked at step 1 only)
N=${1:-4}; T=${2:-3000}
W=/verif/.work/apaswap_$N; rm -rf $W; mkdir -p $W
rc=0
for k in dir und sdir sund; do
  d=$W/$k; mkdir -p $d
  sed "s/^N == 5/N == $N/" /verif/spec/ApaSwapOps.tla > $d/ApaSwapOps.tla
  sed "s/^Kinds == .*/Kinds == {\"$k\"}/" /verif/spec/apalache/ApaSwap.tla > $d/ApaSwap.tla
  if [ "$N" = 4 ]; then
    sed -i 's/ + NZ(M\[i\]\[5\])//; s/ + NZ(M\[5\]\[j\])//; s/ + HasSgn(M\[i\]\[5\], s)//; s/ + HasSgn(M\[5\]\[j\], s)//; s/ + M\[i\]\[5\]//; s/Gen(5)/Gen(4)/g; s/Gen(25)/Gen(16)/' $d/ApaSwap.tla
  fi
  ( cd $d && timeout $T apalache-mc check --init=Init --inv=IndInv --length=0 --out-dir=$d/out0 ApaSwap.tla > base.log 2>&1; echo $? > base.rc ) &
  ( cd $d && timeout $T apalache-mc check --init=IndInit --inv=IndInv --length=1 --tuning-options='search.invariantFilter=1->.*' --out-dir=$d/out1 ApaSwap.tla > step.log 2>&1; echo $? > step.rc ) &
done
wait
for k in dir und sdir sund; do
  for o in base step; do
    r=$(cat $W/$k/$o.rc); t=$(grep -o "Total time: [0-9.]* sec" $W/$k/$o.log | tail -1)
    echo "apaswap N=$N kind=$k $o: exit=$r $t"
    [ "$r" = 0 ] || rc=1
  done
done
exit $rc
