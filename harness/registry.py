"""Registry of the public functions of the `bct` namespace (DESIGN 3.4).

One row per callable that `dir(bct)` exposes and that is defined in `bct.*` (153 rows;
`check_complete()` compares the table with the live namespace).  A row is DATA:

  name        public name
  module      defining module (short)
  args        positional argument kinds, see the constructors below (M, CI, SC, ...)
  out         output component kinds, one per element of the returned tuple:
                (kind, num)  kind in nodevec | pairmat | pairstack | scalar | bag | bagcols |
                             partition | nodesets | nodesetseq | noderows | opaque
                             num  in int | real   (int = integer by definition on integer input)
  variants    {label: kwargs}  the option settings that are exercised ("" = defaults).  Keys that
              start with "_" are not passed to the function: _out (output kinds of this variant),
              _w (weight kind of the network argument), _d (und | dir: which networks this
              variant is defined for); "args": {index: value} overrides a positional argument;
              the string values "CI" / "VEC" / "DIST" / "ETA" are placeholders for a partition,
              a per-node vector, a distance matrix, a 1x1 parameter array
  det         deterministic function of its arguments (no random draws)
  seeded      accepts seed=            (C05 iterates over these rows)
  inplace     has the documented copy=False option (thresholding / weight-conversion utilities)
  anchored    defined in one of the eight files anchored by C04
  exclude     None, or the reason why no check calls it (visualisation, IO, ...)
  c04         None (judged by C04) or the reason why C04 does not judge it
  maxn        largest n that is reasonable (walk counts overflow, exponential cost)
  bad         list of kwargs / argument overrides that make the function raise (C13 raise path)
  always_raises  note: the function raises on every call in this environment (still a C13 case)

plus small BUILDERS that turn an argument kind into a numpy value (`build_args`), permute the
node-indexed arguments (`permute_args`) and call a row (`call`).  Python here only constructs
inputs and calls bctpy; nothing in this file judges an output.
"""
import numpy as np

ANCHORED_FILES = ("centrality", "clustering", "core", "degree", "distance", "efficiency",
                  "similarity", "physical_connectivity")


# --------------------------------------------------------------------- argument kinds
def M(w="wei", d="und", conn=False, role="adj", p=None, full=False, dtype=None):
    """square matrix.  w: bin | wei (integers 1..3) | unit (weights k/1000 in (0,1]) | sign
    (integers -3..3) | dist (full symmetric matrix of distinct positive integers, zero diagonal)
    d: und | dir | any ;  conn: (strongly) connected required ; p: edge density ; full: no zero
    entry anywhere (diagonal included) ; dtype: a dtype the function insists on"""
    return dict(k="mat", w=w, d=d, conn=conn, role=role, p=p, full=full, dtype=dtype)


def CI():
    """community affiliation vector (one label per node)"""
    return dict(k="ci")


def CIS(cols=3, transposed=False):
    """stack of partitions, nodes x partitions (agreement) or partitions x nodes"""
    return dict(k="cis", cols=cols, transposed=transposed)


def SC(v):
    """a scalar / option value passed as is"""
    return dict(k="scalar", v=v)


def NODE():
    """a node index (is renumbered together with the nodes)"""
    return dict(k="node")


def NODES():
    """a list of node indices"""
    return dict(k="nodes")


def VEC(kind="pos"):
    """a per-node vector (pos: positive integers, bin: 0/1)"""
    return dict(k="vec", kind=kind)


def STACK(subjects=5, shift=0.0):
    """n x n x subjects stack of symmetric subject matrices"""
    return dict(k="stack", subjects=subjects, shift=shift)


def XYZ():
    return dict(k="xyz")


def DERIVED(how):
    """argument computed from the first matrix by another bct routine (see _derive)"""
    return dict(k="derived", how=how)


def SPARSE(w="wei", d="und"):
    return dict(k="sparse", w=w, d=d)


def LS():
    """list of modules (lists of node ids)"""
    return dict(k="ls")


def WTS(m=3):
    return dict(k="wts", m=m)


SEED = dict(k="seed")

ROWS = []
BY_NAME = {}


def F(name, module, args, out=(), variants=None, det=True, seeded=False, inplace=False,
      exclude=None, c04=None, maxn=10, bad=(), always_raises=None, minn=4):
    row = dict(name=name, module=module, args=list(args), out=list(out),
               variants=variants or {"": {}}, det=det, seeded=seeded, inplace=inplace,
               anchored=module in ANCHORED_FILES, exclude=exclude, c04=c04, maxn=maxn, minn=minn,
               bad=list(bad), always_raises=always_raises)
    ROWS.append(row)
    BY_NAME[name] = row
    return row


NV, NVI = ("nodevec", "real"), ("nodevec", "int")
PM, PMI = ("pairmat", "real"), ("pairmat", "int")
S, SI = ("scalar", "real"), ("scalar", "int")
OPQ = ("opaque", "int")
NOT_DET = "not deterministic (random draws; C05 covers the seeded call)"

# ------------------------------------------------------------------ centrality.py
F("betweenness_bin", "centrality", [M("bin", "any")], [NV])
F("betweenness_wei", "centrality", [M("wei", "any")], [NV])
F("diversity_coef_sign", "centrality", [M("sign", "und"), CI()], [NV, NV])
F("edge_betweenness_bin", "centrality", [M("bin", "any")], [PM, NV])
F("edge_betweenness_wei", "centrality", [M("wei", "any")], [PM, NV])
F("eigenvector_centrality_und", "centrality", [M("wei", "und", conn=True)], [NV])
F("erange", "centrality", [M("bin", "dir")], [PMI, S, PMI, S])
F("flow_coef_bd", "centrality", [M("bin", "dir")], [NV, S, NVI])
F("gateway_coef_sign", "centrality", [M("sign", "und"), CI()], [NV, NV],
  variants={"degree": dict(centrality_type="degree"),
            "betweenness": dict(centrality_type="betweenness")},
  bad=[dict(kw=dict(centrality_type="closeness"))])
F("kcoreness_centrality_bd", "centrality", [M("bin", "dir")], [NVI, SI])
F("kcoreness_centrality_bu", "centrality", [M("bin", "und")], [NVI, SI])
F("module_degree_zscore", "centrality", [M("wei", "any"), CI()], [NV],
  variants={"0": dict(flag=0, _d="und"), "1": dict(flag=1, _d="dir"), "2": dict(flag=2, _d="dir"),
            "3": dict(flag=3, _d="dir")})
F("pagerank_centrality", "centrality", [M("wei", "any"), SC(0.85)], [NV],
  variants={"": {}, "falff": dict(falff="VEC")})
F("participation_coef", "centrality", [M("wei", "any"), CI()], [NV],
  variants={"undirected": dict(degree="undirected", _d="und"), "in": dict(degree="in", _d="dir"),
            "out": dict(degree="out", _d="dir")})
F("participation_coef_sparse", "centrality", [SPARSE("wei", "und"), CI()], [NV],
  c04="takes a scipy.sparse matrix (the dense twin participation_coef is judged)")
F("participation_coef_sign", "centrality", [M("sign", "und"), CI()], [NV, NV])
F("subgraph_centrality", "centrality", [M("bin", "und")], [NV])

# ------------------------------------------------------------------ clustering.py
F("agreement", "clustering", [CIS(3)], [PMI],
  variants={"": {}, "buffsz=2": dict(buffsz=2)})
F("agreement_weighted", "clustering", [CIS(3, transposed=True), WTS(3)], [PM])
F("clustering_coef_bd", "clustering", [M("bin", "dir")], [NV])
F("clustering_coef_bu", "clustering", [M("bin", "und")], [NV])
F("clustering_coef_wd", "clustering", [M("unit", "dir")], [NV])
F("clustering_coef_wu", "clustering", [M("unit", "und")], [NV])
F("clustering_coef_wu_sign", "clustering", [M("sign", "und")], [NV, NV],
  variants={"default": dict(coef_type="default"), "zhang": dict(coef_type="zhang"),
            "costantini": dict(coef_type="costantini", _out=[NV])})
F("consensus_und", "clustering", [DERIVED("agreement_frac"), SC(0.4)], [("partition", "int")],
  variants={"": dict(reps=5)}, det=False, seeded=True, c04=NOT_DET)
F("get_components", "clustering", [M("wei", "und")], [("partition", "int"), ("bag", "int")],
  bad=[dict(arg0="asym")])
F("get_components_old", "clustering", [M("wei", "und")], [("partition", "int"), ("bag", "int")],
  variants={"": {}, "no_depend": dict(no_depend=True)},
  always_raises="networkx.from_numpy_matrix is gone / np.zeros(float) in the fallback")
F("number_of_components", "clustering", [M("wei", "und")], [SI])
F("path_transitivity", "clustering", [M("wei", "und", conn=True)], [PM],
  always_raises="retrieve_shortest_path returns a column vector; numpy 2 refuses it as an index")
F("transitivity_bd", "clustering", [M("bin", "dir")], [S])
F("transitivity_bu", "clustering", [M("bin", "und")], [S])
F("transitivity_wd", "clustering", [M("unit", "dir")], [S])
F("transitivity_wu", "clustering", [M("unit", "und")], [S])

# ------------------------------------------------------------------------ core.py
F("assortativity_bin", "core", [M("bin", "any")], [S],
  variants={"0": dict(flag=0, _d="und"), "1": dict(flag=1, _d="dir"), "2": dict(flag=2, _d="dir"),
            "3": dict(flag=3, _d="dir"), "4": dict(flag=4, _d="dir")},
  bad=[dict(kw=dict(flag=7))])
F("assortativity_wei", "core", [M("wei", "any")], [S],
  variants={"0": dict(flag=0, _d="und"), "1": dict(flag=1, _d="dir"), "2": dict(flag=2, _d="dir"),
            "3": dict(flag=3, _d="dir"), "4": dict(flag=4, _d="dir")},
  bad=[dict(kw=dict(flag=7))])
F("clique_communities", "core", [M("bin", "und"), SC(3)], [("nodesets", "int")],
  bad=[dict(arg0="asym")])
F("core_periphery_dir", "core", [M("wei", "dir")], [NVI, S], det=False, seeded=True, c04=NOT_DET)
F("kcore_bd", "core", [M("bin", "dir"), SC(2)], [PMI, SI],
  variants={"k=1": dict(k=1), "k=2": dict(k=2), "k=3": dict(k=3),
            "k=2,peel": dict(k=2, peel=True, _out=[PMI, SI, ("nodesetseq", "int"), OPQ])})
F("kcore_bu", "core", [M("bin", "und"), SC(2)], [PMI, SI],
  variants={"k=1": dict(k=1), "k=2": dict(k=2), "k=3": dict(k=3),
            "k=2,peel": dict(k=2, peel=True, _out=[PMI, SI, ("nodesetseq", "int"), OPQ])})
F("local_assortativity_wu_sign", "core", [M("sign", "und")], [NV, NV])
F("rich_club_bd", "core", [M("bin", "dir")], [S, SI, SI])
F("rich_club_bu", "core", [M("bin", "und")], [S, SI, SI])
F("rich_club_wd", "core", [M("wei", "dir")], [S])
F("rich_club_wu", "core", [M("wei", "und")], [S])
F("score_wu", "core", [M("wei", "und"), SC(3)], [PMI, SI],
  variants={"s=2": dict(s=2), "s=3.5": dict(s=3.5), "s=5": dict(s=5)})

# ---------------------------------------------------------------------- degree.py
F("degrees_dir", "degree", [M("wei", "dir")], [NVI, NVI, NVI])
F("degrees_und", "degree", [M("wei", "und")], [NVI])
F("jdegree", "degree", [M("wei", "dir", dtype=int)], [SI, SI, SI, SI])
F("strengths_dir", "degree", [M("wei", "dir")], [NVI])
F("strengths_und", "degree", [M("wei", "und")], [NVI])
F("strengths_und_sign", "degree", [M("sign", "und")], [NVI, NVI, SI, SI])

# -------------------------------------------------------------------- distance.py
F("breadthdist", "distance", [M("bin", "dir")], [PMI, PMI])
F("breadth", "distance", [M("bin", "dir"), NODE()], [NVI, OPQ])
F("charpath", "distance", [DERIVED("distance_bin")], [S, S, NV, S, S],
  variants={"": {}, "diag": dict(include_diagonal=True), "noinf": dict(include_infinite=False)})
F("cycprob", "distance", [DERIVED("findwalks")], [S, S], maxn=7)
F("distance_bin", "distance", [M("bin", "dir")], [PMI])
F("distance_wei", "distance", [M("wei", "dir")], [PMI, ("pairmat_tie", "int")])
F("distance_wei_floyd", "distance", [M("wei", "dir")], [PM, ("pairmat_tie", "int"), OPQ],
  variants={"": {}, "inv": dict(transform="inv"),
            "log": dict(transform="log", _w="unit", _out=[PM, OPQ, OPQ])},
  bad=[dict(kw=dict(transform="sqrt"))])
F("findpaths", "distance", [M("bin", "dir"), SC(3), NODES()], [OPQ],
  always_raises="its progress print uses a malformed % format (TypeError)", c04="always raises")
F("findwalks", "distance", [M("bin", "dir")], [("pairstack", "int"), SI, SI], maxn=7)
F("mean_first_passage_time", "distance", [M("wei", "dir", conn=True)], [PM])
F("navigation_wu", "distance", [M("wei", "und"), M("dist", "und", role="dist")],
  [S, PMI, PMI, PMI, OPQ],
  variants={"": {}, "max_hops=2": dict(max_hops=2)})
F("reachdist", "distance", [M("bin", "dir")], [PMI, PMI],
  variants={"": {}, "nobin": dict(ensure_binary=False)})
F("retrieve_shortest_path", "distance", [DERIVED("floyd_st")], [OPQ],
  c04="arguments are another routine's outputs (hops, Pmat); covered through distance_wei_floyd")
F("search_information", "distance", [M("wei", "und", conn=True)], [PM],
  variants={"": {}, "memory": dict(has_memory=True)},
  always_raises="indexes with retrieve_shortest_path's column vector (numpy 2: ValueError)")

# ------------------------------------------------------------------ efficiency.py
F("efficiency_bin", "efficiency", [M("bin", "dir")], [S],
  variants={"": {}, "local": dict(local=True, _out=[NV])})
F("efficiency_wei", "efficiency", [M("unit", "dir")], [S],
  variants={"": {}, "local": dict(local=True, _out=[NV]), "original": dict(local="original", _out=[NV])},
  bad=[dict(kw=dict(local="nodal"))])
F("diffusion_efficiency", "efficiency", [M("wei", "dir", conn=True)], [S, PM])
F("resource_efficiency_bin", "efficiency", [M("bin", "und", conn=True), SC(0.5)], [PM, PM],
  bad=[dict(args={1: 1.5})])
F("rout_efficiency", "efficiency", [M("wei", "dir")], [S, PM, NV],
  variants={"": {}, "inv": dict(transform="inv"), "log": dict(transform="log", _w="unit")})

# ------------------------------------------------------------------ similarity.py
F("edge_nei_overlap_bd", "similarity", [M("bin", "dir")], [PM, ("bag", "real"), ("bagcols", "int")])
F("edge_nei_overlap_bu", "similarity", [M("bin", "und")], [PM, ("bag", "real"), ("bagcols", "int")])
F("gtom", "similarity", [M("bin", "und"), SC(1)], [PM],
  variants={"0": dict(nr_steps=0), "1": dict(nr_steps=1), "2": dict(nr_steps=2),
            "3": dict(nr_steps=3), "4": dict(nr_steps=4)})
F("matching_ind", "similarity", [M("bin", "dir")], [PM, PM, PM])
F("matching_ind_und", "similarity", [M("bin", "und")], [PM])
F("dice_pairwise_und", "similarity", [M("bin", "und"), M("bin", "und")], [NV])
F("corr_flat_und", "similarity", [M("wei", "und"), M("wei", "und")], [S],
  bad=[dict(arg1="smaller")])
F("corr_flat_dir", "similarity", [M("wei", "dir"), M("wei", "dir")], [S],
  bad=[dict(arg1="smaller")])

# ------------------------------------------------------- physical_connectivity.py
F("density_dir", "physical_connectivity", [M("wei", "dir")], [S, SI, SI])
F("density_und", "physical_connectivity", [M("wei", "und")], [S, SI, SI])
F("rentian_scaling", "physical_connectivity", [M("bin", "und"), XYZ(), SC(5)], [OPQ, OPQ],
  det=False, seeded=True, c04=NOT_DET)

# ------------------------------------------------------------------ modularity.py
NA = "not in the files anchored by C04"
F("ci2ls", "modularity", [CI()], [OPQ], c04=NA)
F("ls2ci", "modularity", [LS()], [OPQ], c04=NA,
  variants={"": {}, "zeroindexed": dict(zeroindexed=True)})
F("community_louvain", "modularity", [M("wei", "und")], [OPQ, S], det=False, seeded=True, c04=NOT_DET,
  variants={"": {}, "ci": dict(ci="CI"), "negative_asym": dict(B="negative_asym")})
F("link_communities", "modularity", [M("wei", "und")], [OPQ], c04=NA,
  always_raises="np.hstack over a generator (numpy 2: TypeError)")
F("modularity_dir", "modularity", [M("wei", "dir")], [OPQ, S], c04=NA,
  variants={"": {}, "kci": dict(kci="CI")})
F("modularity_und", "modularity", [M("wei", "und")], [OPQ, S], c04=NA,
  variants={"": {}, "kci": dict(kci="CI")})
F("modularity_und_sign", "modularity", [M("sign", "und"), CI()], [OPQ, S], c04=NA,
  variants={q: dict(qtype=q) for q in ("sta", "pos", "smp", "gja", "neg")},
  bad=[dict(kw=dict(qtype="xyz"))])
F("partition_distance", "modularity", [CI(), CI()], [S, S], c04=NA)
for _n, _m in (("modularity_finetune_dir", M("wei", "dir")), ("modularity_finetune_und", M("wei", "und")),
               ("modularity_louvain_dir", M("wei", "dir")), ("modularity_louvain_und", M("wei", "und"))):
    F(_n, "modularity", [_m], [OPQ, S], det=False, seeded=True, c04=NOT_DET,
      variants=({"": {}, "ci": dict(ci="CI")} if "finetune" in _n else
                {"": {}, "hierarchy": dict(hierarchy=True)}))
for _n in ("modularity_finetune_und_sign", "modularity_louvain_und_sign", "modularity_probtune_und_sign"):
    F(_n, "modularity", [M("sign", "und")], [OPQ, S], det=False, seeded=True, c04=NOT_DET,
      variants=({"": {}, "gja": dict(qtype="gja")} if "louvain" in _n else
                {"": {}, "ci": dict(ci="CI"), "neg": dict(qtype="neg")}),
      bad=[dict(kw=dict(qtype="xyz"))])

# ---------------------------------------------------------------------- motifs.py
_NOLIB = "motif34lib.mat is not shipped in /repo/bct/algorithms (FileNotFoundError)"
F("find_motif34", "motifs", [SC(3), SC(3)], [OPQ], c04=NA, always_raises=_NOLIB)
F("make_motif34lib", "motifs", [], [], c04=NA,
  exclude="IO: writes motif34lib.mat into the installed package directory (would modify /repo)")
for _n in ("motif3funct_bin", "motif3struct_bin", "motif4funct_bin", "motif4struct_bin"):
    F(_n, "motifs", [M("bin", "dir")], [OPQ, OPQ], c04=NA, always_raises=_NOLIB, maxn=7)
for _n in ("motif3funct_wei", "motif3struct_wei", "motif4funct_wei", "motif4struct_wei"):
    F(_n, "motifs", [M("unit", "dir")], [OPQ, OPQ, OPQ], c04=NA, always_raises=_NOLIB, maxn=7)

# ------------------------------------------------------------------- reference.py
for _n, _m in (("latmio_dir", M("wei", "dir")), ("latmio_dir_connected", M("wei", "dir", conn=True)),
               ("latmio_und", M("wei", "und")), ("latmio_und_connected", M("wei", "und", conn=True))):
    F(_n, "reference", [_m, SC(2)], [OPQ, OPQ, OPQ, SI], det=False, seeded=True, c04=NOT_DET, minn=6,
      variants={"": {}, "D": dict(D="DIST")})
for _n, _m in (("randmio_dir", M("wei", "dir")), ("randmio_dir_connected", M("wei", "dir", conn=True)),
               ("randmio_dir_signed", M("sign", "dir")),
               ("randmio_und", M("wei", "und")), ("randmio_und_connected", M("wei", "und", conn=True)),
               ("randmio_und_signed", M("sign", "und"))):
    F(_n, "reference", [_m, SC(2)], [OPQ, SI], det=False, seeded=True, c04=NOT_DET, minn=6,
      bad=([dict(arg0="asym")] if _n in ("randmio_und", "randmio_und_connected") else []))
F("makeevenCIJ", "reference", [SC(8), SC(12), SC(2)], [OPQ], det=False, seeded=True, c04=NOT_DET)
F("makefractalCIJ", "reference", [SC(3), SC(2.0), SC(2)], [OPQ, SI], det=False, seeded=True, c04=NOT_DET)
F("makerandCIJ_dir", "reference", [SC(6), SC(10)], [OPQ], det=False, seeded=True, c04=NOT_DET)
F("makerandCIJ_und", "reference", [SC(6), SC(7)], [OPQ], det=False, seeded=True, c04=NOT_DET)
F("makerandCIJdegreesfixed", "reference", [VEC("deg"), VEC("deg")], [OPQ], det=False, seeded=True,
  c04=NOT_DET, always_raises="indexes with float arrays (IndexError on every call)")
F("makeringlatticeCIJ", "reference", [SC(8), SC(16)], [OPQ], det=False, seeded=True, c04=NOT_DET)
F("maketoeplitzCIJ", "reference", [SC(8), SC(12), SC(1.5)], [OPQ], det=False, seeded=True, c04=NOT_DET)
F("null_model_dir_sign", "reference", [M("sign", "dir")], [OPQ, OPQ], det=False, seeded=True,
  c04=NOT_DET, minn=6, variants={"": dict(bin_swaps=2)})
F("null_model_und_sign", "reference", [M("sign", "und")], [OPQ, OPQ], det=False, seeded=True,
  c04=NOT_DET, minn=6, variants={"": dict(bin_swaps=2)}, bad=[dict(arg0="asym")])
F("randomize_graph_partial_und", "reference", [M("wei", "und", p=0.35), M("bin", "und", p=0.15), SC(2)],
  [OPQ],
  det=False, seeded=True, c04=NOT_DET, minn=6)
F("randomizer_bin_und", "reference", [M("bin", "und"), SC(0.5)], [OPQ], det=False, seeded=True,
  c04=NOT_DET, minn=6, bad=[dict(arg0="asym")])

# ------------------------------------------------------------------ generative.py
F("generative_model", "generative", [DERIVED("zeros"), M("dist", "und", role="dist"), SC(6),
                                     DERIVED("eta")], [OPQ],
  variants={"": dict(gamma="ETA")}, det=False, seeded=True, c04=NOT_DET, minn=6)
F("evaluate_generative_model", "generative",
  [DERIVED("zeros"), M("bin", "und"), M("dist", "und", role="dist"), DERIVED("eta")], [OPQ],
  variants={"": dict(gamma="ETA")}, det=False, seeded=True, c04=NOT_DET, minn=6)
F("generate_fc", "generative", [M("wei", "und"), SC(1.0)], [OPQ], det=False, seeded=True, c04=NOT_DET,
  always_raises="NotImplementedError")

# ------------------------------------------------------------------------- nbs.py
F("nbs_bct", "nbs", [STACK(5), STACK(5, shift=1.0), SC(1.0)], [OPQ, OPQ, OPQ],
  variants={"": dict(k=10), "paired": dict(k=10, paired=True), "left": dict(k=10, tail="left")},
  det=False, seeded=True, c04=NOT_DET, bad=[dict(kw=dict(tail="up"))])

# --------------------------------------------------------------------- utils/*.py
F("cuberoot", "utils.misc", [M("sign", "dir")], [PM], c04=NA)
F("dummyvar", "utils.misc", [CIS(2)], [OPQ], c04=NA)
F("get_rng", "utils.misc", [], [OPQ], c04=NA, det=False, seeded=True,
  exclude="takes no array; returns the global generator (C05's subject)")
F("pick_four_unique_nodes_quickly", "utils.misc", [SC(8)], [OPQ, OPQ, OPQ, OPQ], det=False, seeded=True, c04=NOT_DET)
F("teachers_round", "utils.misc", [SC(2.5)], [SI], c04=NA)
F("BCTParamError", "utils.misc", [], [], exclude="exception class, not a function", c04=NA)
_CP = {"copy": dict(copy=True), "nocopy": dict(copy=False)}
F("threshold_absolute", "utils.other", [M("sign", "dir"), SC(1.5)], [PM], inplace=True, c04=NA, variants=_CP)
F("threshold_proportional", "utils.other", [M("wei", "any"), SC(0.4)], [PM], inplace=True, c04=NA,
  variants=_CP, bad=[dict(args={1: 1.5})])
F("weight_conversion", "utils.other", [M("wei", "dir"), SC("normalize")], [PM], inplace=True, c04=NA,
  variants={"%s,%s" % (w, c): dict(args={1: w}, copy=(c == "copy"))
            for w in ("binarize", "normalize", "lengths") for c in ("copy", "nocopy")},
  bad=[dict(args={1: "sqrt"})])
F("binarize", "utils.other", [M("sign", "dir")], [PM], inplace=True, c04=NA, variants=_CP)
F("normalize", "utils.other", [M("sign", "dir")], [PM], inplace=True, c04=NA, variants=_CP)
F("invert", "utils.other", [M("wei", "dir")], [PM], inplace=True, c04=NA, variants=_CP)
F("logtransform", "utils.other", [M("unit", "dir", full=True)], [PM], inplace=True, c04=NA, variants=_CP,
  bad=[dict(arg0="plain")])
F("autofix", "utils.other", [M("wei", "any")], [PM], inplace=True, c04=NA, variants=_CP)

# -------------------------------------------------------------- utils/visualization
F("adjacency_plot_und", "utils.visualization", [M("wei", "und"), XYZ()], [],
  exclude="visualisation (needs mayavi and a display)", c04=NA)
F("align_matrices", "utils.visualization", [M("wei", "und"), M("wei", "und")], [OPQ, OPQ, S],
  variants={"": dict(H=30)}, det=False, c04=NA + "; simulated annealing on the global random stream")
F("backbone_wu", "utils.visualization", [M("wei", "und", conn=True), SC(2)], [OPQ, OPQ], c04=NA)
F("grid_communities", "utils.visualization", [CI()], [OPQ, OPQ], c04=NA)
F("reorderMAT", "utils.visualization", [M("wei", "und")], [OPQ, OPQ, S],
  variants={"": dict(H=20)}, det=False, c04=NA + "; random restarts on the global random stream")
F("reorder_matrix", "utils.visualization", [M("wei", "und")], [OPQ, OPQ, S],
  variants={"": dict(H=30)}, det=False, c04=NA + "; simulated annealing on the global random stream")
F("reorder_mod", "utils.visualization", [M("wei", "und"), CI()], [OPQ, OPQ], c04=NA)
F("writetoPAJ", "utils.visualization", [M("wei", "dir"), SC("x.net"), SC(True)], [],
  exclude="IO: writes a Pajek file", c04=NA)


# ============================================================================ queries
def rows(pred=lambda r: True):
    return [r for r in ROWS if pred(r)]


def callable_rows():
    return rows(lambda r: r["exclude"] is None)


def seeded_rows():
    """the seed-accepting functions that a check can call (C05)"""
    return rows(lambda r: r["seeded"] and r["exclude"] is None)


def c04_rows():
    """deterministic measures in the anchored files that C04 judges"""
    return rows(lambda r: r["anchored"] and r["det"] and r["exclude"] is None and r["c04"] is None)


def public_names():
    import bct
    out = []
    for n in dir(bct):
        o = getattr(bct, n)
        if callable(o) and getattr(o, "__module__", "").startswith("bct"):
            out.append(n)
    return sorted(out)


def check_complete():
    """-> (missing rows, stale rows) with respect to the live bct namespace"""
    live = set(public_names())
    have = set(BY_NAME)
    return sorted(live - have), sorted(have - live)


def cases(row):
    """[(label 'fn' or 'fn[variant]', variant key)]"""
    return [(row["name"] + ("[%s]" % v if v else ""), v) for v in row["variants"]]


# =========================================================================== builders
UNITW = [0.125, 0.25, 0.3, 0.5, 0.7, 1.0]      # all k/1000


def _connected(A, und):
    n = len(A)
    B = (A != 0)
    if und:
        B = B | B.T

    def reach(Mx):
        seen, st = {0}, [0]
        while st:
            u = st.pop()
            for v in np.where(Mx[u])[0]:
                if int(v) not in seen:
                    seen.add(int(v))
                    st.append(int(v))
        return len(seen) == n
    return reach(B) and (und or reach(B.T))


def build_matrix(rng, n, spec, p=None, diag=False, dtype=float, und=None, support=None, uniform=False):
    """random matrix of the row's kind; `und` resolves d='any'.  rng: random.Random.
    support: 0/1 matrix whose nonzero cells are the connections (weights are drawn on it;
    `uniform`: one common weight, which keeps the symmetries of the support)"""
    d = spec["d"]
    if d == "any":
        d = "und" if und else "dir"
    und_ = d == "und"
    w = spec["w"]
    if w == "dist":
        vals = list(range(1, n * (n - 1) // 2 + 1))
        rng.shuffle(vals)
        A = np.zeros((n, n))
        k = 0
        for i in range(n):
            for j in range(i + 1, n):
                A[i, j] = A[j, i] = vals[k]
                k += 1
        return A.astype(dtype)
    if spec.get("p") is not None:
        p = spec["p"]
    if spec.get("full"):
        p = 1.0
    if spec.get("dtype") is not None:
        dtype = spec["dtype"]
    common = rng.choice(UNITW) if w == "unit" else rng.randint(1, 3)
    for _ in range(2000):
        q = p if p is not None else rng.choice([0.3, 0.5, 0.7, 0.9])
        A = np.zeros((n, n))
        for i in range(n):
            for j in range(n):
                if i == j or (und_ and j < i):
                    continue
                if (support[i][j] or (und_ and support[j][i])) if support is not None else rng.random() < q:
                    if w == "bin":
                        v = 1
                    elif w == "unit":
                        v = rng.choice(UNITW)
                    else:
                        v = rng.randint(1, 3)
                        if w == "sign" and rng.random() < 0.45:
                            v = -v
                    if uniform and w in ("unit", "wei"):
                        v = common
                    elif uniform and w == "sign":
                        v = common if (i + j) % 2 else -common
                    A[i, j] = v
                    if und_:
                        A[j, i] = v
        if spec.get("conn") and not _connected(A, und_):
            if support is not None:
                return None
            p = None if p is None else min(1.0, p + 0.1)
            continue
        break
    else:
        raise RuntimeError("could not build a connected matrix")
    if diag or spec.get("full"):
        for i in range(n):
            A[i, i] = (1 if w == "bin" else (0.5 if w == "unit" else rng.choice([1, 2, 3]) *
                                            (-1 if w == "sign" and rng.random() < 0.5 else 1)))
    if dtype is int and w == "unit":
        dtype = float
    return A.astype(dtype)


def build_ci(rng, n, arbitrary=False):
    k = rng.randint(1, max(1, min(n, 4)))
    c = [rng.randint(1, k) for _ in range(n)]
    if arbitrary:
        labs = sorted(set(c))
        new = rng.sample([-40, -3, 0, 2, 7, 11, 55, 100, 1000, 65536], len(labs))
        m = dict(zip(labs, new))
        c = [m[x] for x in c]
    return np.array(c, dtype=int)


def direction(row, vkey=""):
    """'und' | 'dir' | 'any': which networks the first matrix argument of a variant may be"""
    for a in row["args"]:
        if a["k"] == "mat" and a["role"] == "adj":
            return row["variants"].get(vkey, {}).get("_d", a["d"])
    return None


def out_kinds(row, vkey=""):
    """output component kinds of a variant (a variant may change the shape of the result)"""
    return list(row["variants"].get(vkey, {}).get("_out", row["out"]))


def build_args(row, rng, n, und=None, diag=False, dtype=float, arbitrary_labels=False, p=None,
               vkey="", support=None, uniform=False):
    """-> list of argument values for the row (numpy arrays / scalars); None if the given
    support cannot carry an argument of the required kind (not connected)."""
    d_ = direction(row, vkey)
    if d_ in ("und", "dir"):
        und = d_ == "und"
    if und is None:
        und = rng.random() < 0.5
    out = []
    first = None
    w_override = row["variants"].get(vkey, {}).get("_w")
    for a in row["args"]:
        k = a["k"]
        if k == "mat" and w_override and a["role"] == "adj":
            a = dict(a, w=w_override)
        if k == "mat" and a["d"] == "any" and a["role"] == "adj":
            a = dict(a, d="und" if und else "dir")
        if k == "mat":
            v = build_matrix(rng, n, a, p=p, diag=diag and a["w"] != "dist", dtype=dtype, und=und,
                             support=support if (first is None and a["role"] == "adj") else None,
                             uniform=uniform)
            if v is None:
                return None
            if first is None:
                first = v
        elif k == "sparse":
            import scipy.sparse as sp
            v = sp.csr_matrix(build_matrix(rng, n, dict(w=a["w"], d=a["d"]), p=p, diag=diag, und=und))
        elif k == "ci":
            v = build_ci(rng, n, arbitrary_labels)
        elif k == "cis":
            cols = [build_ci(rng, n, arbitrary_labels) for _ in range(a["cols"])]
            v = np.array(cols) if a["transposed"] else np.array(cols).T
        elif k == "wts":
            v = np.array([rng.randint(1, 4) for _ in range(a["m"])], dtype=dtype)
        elif k == "scalar":
            v = a["v"]
        elif k == "node":
            v = rng.randrange(n)
        elif k == "nodes":
            v = sorted(rng.sample(range(n), min(2, n)))
        elif k == "vec":
            if a["kind"] == "deg":
                v = np.array([2] * n, dtype=int)
            elif a["kind"] == "bin":
                v = np.array([rng.randint(0, 1) for _ in range(n)], dtype=int)
            else:
                v = np.array([rng.randint(1, 4) for _ in range(n)], dtype=dtype)
        elif k == "stack":
            rs = np.random.RandomState(rng.randrange(2 ** 31))
            x = rs.randn(n, n, a["subjects"]) + a["shift"]
            v = x + x.transpose(1, 0, 2)
        elif k == "xyz":
            v = np.array([[rng.randint(0, 9) for _ in range(3)] for _ in range(n)], dtype=float)
        elif k == "ls":
            ci = build_ci(rng, n)
            v = [[int(i) for i in np.where(ci == l)[0]] for l in sorted(set(ci.tolist()))]
        elif k == "derived":
            v = _derive(a["how"], rng, n, first, und)
            if first is None and isinstance(v, np.ndarray) and v.ndim == 2:
                first = v
        else:
            raise ValueError("unknown argument kind %r" % k)
        out.append(v)
    return out


def _derive(how, rng, n, first, und):
    import bct
    if how == "distance_bin":
        A = build_matrix(rng, n, dict(w="bin", d="any"), und=und)
        return bct.distance_bin(A)
    if how == "findwalks":
        A = build_matrix(rng, n, dict(w="bin", d="dir"))
        return bct.findwalks(A)[0]
    if how == "agreement_frac":
        cols = np.array([build_ci(rng, n) for _ in range(4)]).T
        return bct.agreement(cols) / 4.0
    if how == "floyd_st":
        raise ValueError("retrieve_shortest_path is built by build_special")
    if how == "zeros":
        return np.zeros((n, n))
    if how == "eta":
        return np.array([[1.0]])
    raise ValueError(how)


def build_special(row, rng, n, und=None, diag=False, dtype=float, arbitrary_labels=False, vkey="", p=None):
    """argument lists for the rows whose arguments are another routine's outputs"""
    import bct
    if row["name"] == "retrieve_shortest_path":
        A = build_matrix(rng, n, dict(w="wei", d="und", conn=True))
        _, hops, Pmat = bct.distance_wei_floyd(A)
        return [0, n - 1, hops, Pmat]
    return build_args(row, rng, n, und=und, diag=diag, dtype=dtype, arbitrary_labels=arbitrary_labels,
                      vkey=vkey, p=p)


def resolve_kwargs(row, vkey, args, rng, n, dtype=float, arbitrary_labels=False):
    """variant kwargs with the placeholders 'CI' / 'VEC' / 'DIST' / 'ETA' replaced by values;
    `args` overrides (variants of weight_conversion) are applied in place"""
    kw = {}
    for key, val in row["variants"][vkey].items():
        if key.startswith("_"):
            continue
        if key == "args":
            for idx, v in val.items():
                args[int(idx)] = v
        elif isinstance(val, str) and val == "CI":
            kw[key] = build_ci(rng, n, arbitrary_labels)
        elif isinstance(val, str) and val == "VEC":
            kw[key] = np.array([rng.randint(1, 4) for _ in range(n)], dtype=dtype)
        elif isinstance(val, str) and val == "DIST":
            kw[key] = build_matrix(rng, n, dict(w="dist", d="und"))
        elif isinstance(val, str) and val == "ETA":
            kw[key] = np.array([[1.0]])
        else:
            kw[key] = val
    return kw


def call(row, args, kwargs):
    """call the real function; scalar positional arguments that the variant names as keywords
    (k, s, nr_steps ...) are dropped from the positional list"""
    import bct
    f = getattr(bct, row["name"])
    import inspect
    names = list(inspect.signature(f).parameters)
    pos = []
    for i, a in enumerate(args):
        if i < len(names) and names[i] in kwargs:
            continue
        pos.append(a)
    return f(*pos, **kwargs)


# ---------------------------------------------------------------- the group action
def perm_matrix(A, p):
    return A[np.ix_(p, p)]


def permute_value(spec, v, p):
    """the renumbering p (new node i = old node p[i]) applied to one argument value"""
    k = spec["k"] if isinstance(spec, dict) else spec
    p = np.asarray(p)
    if k == "mat":
        return v[np.ix_(p, p)]
    if k in ("ci", "vec"):
        return np.asarray(v)[p]
    if k == "cis":
        return v[:, p] if spec["transposed"] else v[p, :]
    if k == "node":
        return int(np.where(p == v)[0][0])
    if k == "pairstack":
        return v[np.ix_(p, p)]
    return v


def arg_action(row, i):
    """which action the i-th argument carries (for the spec's input re-check)"""
    a = row["args"][i]
    if a["k"] == "derived":
        return {"distance_bin": "mat", "findwalks": "pairstack"}.get(a["how"], "fixed")
    if a["k"] in ("mat", "ci", "vec", "node", "cis"):
        return a["k"]
    return "fixed"


def permute_args(row, args, p):
    out = []
    for i, v in enumerate(args):
        act = arg_action(row, i)
        spec = row["args"][i] if act == row["args"][i]["k"] else dict(k=act)
        out.append(permute_value(spec, v, p) if act != "fixed" else v)
    return out
