"""Lossless / fixed-point encodings of numpy values for TLC (DESIGN 3.3)."""
import math
import numpy as np

Q6 = 1000000
INF = 1000000000       # BctBase!INF
NINF = -1000000000
NAN = 2000000001       # BctBase!NAN


def is_intlike(x):
    return np.isfinite(x) and float(x) == round(float(x))


def e_int(x):
    """Value that must be an integer by definition; inf/nan as strings."""
    x = float(x)
    if math.isnan(x):
        return NAN
    if math.isinf(x):
        return INF if x > 0 else NINF
    if x != round(x) or abs(x) >= INF:
        raise ValueError("not an int32 integer: %r" % x)
    return int(round(x))


def e_q(x, scale=Q6):
    x = float(x)
    if math.isnan(x):
        return NAN
    if math.isinf(x):
        return INF if x > 0 else NINF
    v = int(round(x * scale))
    if abs(v) >= INF:
        raise ValueError("fixed-point overflow: %r" % x)
    return v


def mat_int(A):
    A = np.asarray(A)
    return [[e_int(v) for v in row] for row in A]


def vec_int(a):
    return [e_int(v) for v in np.asarray(a).ravel()]


def mat_q(A, scale=Q6):
    return [[e_q(v, scale) for v in row] for row in np.asarray(A)]


def vec_q(a, scale=Q6):
    return [e_q(v, scale) for v in np.asarray(a).ravel()]


def exc_name(e):
    return type(e).__name__
