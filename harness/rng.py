"""Scripted and recording random streams passed to bctpy as `seed=`.

get_rng() passes RandomState instances through unchanged, so an instance of one of
these classes becomes the routine's `rng`.  ScriptedRNG serves the values of the
nondeterministic action parameters of a TLC behaviour (DESIGN 3.4); RecordingRNG wraps
a real seeded stream and logs every request.
"""
import numpy as np


class OffScript(Exception):
    pass


class ScriptedRNG(np.random.RandomState):
    """script: list of items
         ["p", e1, e2]   a pair of edge indices (1-based): randint(k, size=(2,)) or two randint(k)
         ["r", e2]       one more edge index: randint(k)
         ["f", f]        coin: random_sample() -> 0.75 if f else 0.25
         ["u", x1e6]     uniform: random_sample()/rand() -> x1e6 / 1e6
         ["perm", [..]]  permutation(n) (1-based entries)
         ["k", v]        raw randint value (0-based)
         ["q", a,b,c,d]  four node ids (1-based) for pick_four_unique_nodes_quickly: randint(n**4)
    If the code asks for something the script does not hold, the run is marked
    off-script and a seeded fallback stream takes over."""

    def __init__(self, script, fallback_seed=12345):
        super().__init__(fallback_seed)
        self.script = [list(x) for x in script]
        self.pos = 0
        self.pending = None     # second element of a "p" item served through scalar randint
        self.off = ""
        self.log = []

    def _next(self, kinds, what):
        if self.off:
            return None
        if self.pos >= len(self.script):
            self.off = "exhausted at %s" % what
            return None
        it = self.script[self.pos]
        if it[0] not in kinds:
            self.off = "wanted %s got %s at %d" % (what, it[0], self.pos)
            return None
        self.pos += 1
        return it

    def randint(self, low, high=None, size=None, dtype=int):
        self.log.append(("randint", low, size))
        if size is not None and tuple(np.atleast_1d(size)) == (2,):
            it = self._next(("p",), "randint2")
            if it is None:
                return super().randint(low, high, size)
            return np.array([it[1] - 1, it[2] - 1])
        if size is None:
            if self.pending is not None:
                v = self.pending
                self.pending = None
                return v
            it = self._next(("p", "r", "k", "q"), "randint")
            if it is None:
                return super().randint(low, high)
            if it[0] == "q":
                n = int(round(low ** 0.25))
                a, b, c, d = (x - 1 for x in it[1:5])
                return a + b * n + c * n * n + d * n ** 3
            if it[0] == "p":
                self.pending = it[2] - 1
                return it[1] - 1
            if it[0] == "r":
                return it[1] - 1
            return it[1]
        self.off = self.off or "unsupported randint size"
        return super().randint(low, high, size)

    def random_sample(self, size=None):
        self.log.append(("random_sample", size))
        if size is None:
            it = self._next(("f", "u"), "random_sample")
            if it is None:
                return super().random_sample()
            if it[0] == "f":
                return 0.75 if it[1] else 0.25
            return it[1] / 1e6
        self.off = self.off or "unsupported random_sample size"
        return super().random_sample(size)

    def rand(self, *shape):
        if not shape:
            return self.random_sample()
        self.log.append(("rand", shape))
        self.off = self.off or "unsupported rand shape"
        return super().rand(*shape)

    def permutation(self, x):
        self.log.append(("permutation", int(x) if np.isscalar(x) else len(x)))
        want = int(x) if np.isscalar(x) else len(x)
        if not self.off and self.pos < len(self.script) and self.script[self.pos][0] == "perm" \
                and len(self.script[self.pos][1]) != want:
            self.off = "permutation of %d wanted, script holds %d" % (want, len(self.script[self.pos][1]))
        it = self._next(("perm",), "permutation")
        if it is None:
            return super().permutation(x)
        p = np.array(it[1], dtype=int) - 1
        if np.isscalar(x):
            return p
        return np.asarray(x)[p]

    def status(self):
        if self.off:
            return "off-script: " + self.off
        if self.pos < len(self.script) or self.pending is not None:
            return "unconsumed: %d of %d" % (self.pos, len(self.script))
        return "followed"


class RecordingRNG(np.random.RandomState):
    """A real MT19937 stream that logs the name of every method drawn from."""

    def __init__(self, seed):
        super().__init__(seed)
        self.log = []

    def _wrap(name):
        def f(self, *a, **k):
            self.log.append(name)
            return getattr(np.random.RandomState, name)(self, *a, **k)
        return f

    randint = _wrap("randint")
    random_sample = _wrap("random_sample")
    rand = _wrap("rand")
    randn = _wrap("randn")
    permutation = _wrap("permutation")
    shuffle = _wrap("shuffle")
    choice = _wrap("choice")
    uniform = _wrap("uniform")
    random = _wrap("random_sample")
